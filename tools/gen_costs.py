"""Record the per-instance wall times of the last run of each check (evidence/*.json) in tools/costs.json.
The driver uses them ONLY to start the longest instances first (shorter wall time on 16 cores); verdicts do not depend on them."""
import glob, json, os
here = os.path.dirname(os.path.dirname(os.path.abspath(__file__)))
path = os.path.join(here, 'tools', 'costs.json')
try:
    costs = json.load(open(path))
except Exception:
    costs = {}
for f in sorted(glob.glob(os.path.join(here, 'evidence', 'C*.json'))):
    e = json.load(open(f))
    d = costs.setdefault(e['property_id'], {}).setdefault(e.get('tier', 'quick'), {})
    for i in e['coverage']['per_instance']:
        if i.get('wall_s'):
            d[i['instance']] = round(i['wall_s'])
json.dump(costs, open(path, 'w'), indent=0, sort_keys=True)
print('costs for', len(costs), 'checks')
