#!/bin/bash
# runs every registered quick (or thorough) check in /verif against /repo, one after the other; prints a summary
tier=${1:-quick}
cd /verif
for i in $(seq -w 1 18); do
  p=C$i
  s=$(date +%s)
  /venv/bin/python /verif/vp_check.py --property $p --tier $tier > /tmp/vp_all_$p.log 2>&1; c=$?
  e=$(date +%s)
  echo "$p exit=$c wall=$((e-s))s $(tail -1 /tmp/vp_all_$p.log)"
done
