"""Rewrite the two tables of DESIGN.md section 10.4 from known_findings.json (the file is the source of truth)."""
import json, re, os
here = os.path.dirname(os.path.dirname(os.path.abspath(__file__)))
k = json.load(open(os.path.join(here, 'known_findings.json')))
esc = lambda s: s.replace('|', '\\|')
t1 = '| commit | property | what failed before the repair |\n|---|---|---|\n'
for s in k['fixed']:
    p, c, w = re.match(r'fixed: property=(C\d+) ([0-9a-f]+) (.*)', s).groups()
    t1 += '| %s | %s | %s |\n' % (c, p, esc(w))
t2 = '| region | property | what |\n|---|---|---|\n'
for f in k['findings']:
    ps = f.get('properties') or [f['property']]
    t2 += '| `%s` | %s | %s |\n' % (f['region'], ', '.join(ps), esc(f['what']))
path = os.path.join(here, 'DESIGN.md')
d = open(path).read()
a = d.index('| commit | ', d.index('### 10.4')); b = d.index('Recorded (open)')
d = d[:a] + t1 + '\n' + d[b:]
a = d.index('| region | property | what |'); b = d.index('False alarms met and how')
d = d[:a] + t2 + '\n' + d[b:]
open(path, 'w').write(d)
