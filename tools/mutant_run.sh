#!/bin/bash
# usage: mutant_run.sh <Cxx> <a|b> [jobs]   -- confirm a seeded change in its scratch worktree, then run the quick check against it
# (scratch worktree = /tmp/mut/wt_<id>; the check reads the mutated tree through VP_REPO, /repo itself is never touched)
id=$1; x=$2; jobs=${3:-8}
wt=/tmp/mut/wt_$id; out=/tmp/mut/out/$id; res=/tmp/mut/results; mkdir -p $res
log=$res/${id}_$x.log; : > $log
cd $wt || exit 2
git checkout -q -- . ; git clean -fdq pydbml
git checkout -q --detach $(git -C /repo rev-parse HEAD)   # seeded changes are applied on top of the current /repo HEAD
if ! git apply $out/patch_$x.diff 2>>$log; then echo "$id $x APPLY_FAILED" | tee -a $log; exit 2; fi
t=$(/venv/bin/python -m pytest -q -p no:cacheprovider 2>&1 | tail -1); echo "tests_with_change: $t" >> $log
PYTHONPATH=$wt /venv/bin/python $out/demo_$x.py >> $log 2>&1; d1=$?; echo "demo_with_change_exit: $d1" >> $log
VP_REPO=$wt VP_TIMEOUT_SCALE=1.5 /venv/bin/python /verif/vp_check.py --property $id --tier quick --jobs $jobs --no-evidence --fail-fast > $res/${id}_$x.check 2>&1; c=$?
echo "check_exit: $c" >> $log; grep -m3 "^VIOLATION" $res/${id}_$x.check >> $log
git checkout -q -- . ; git clean -fdq pydbml
PYTHONPATH=$wt /venv/bin/python $out/demo_$x.py > /dev/null 2>&1; d0=$?; echo "demo_without_change_exit: $d0" >> $log
echo "$id $x tests=[$t] demo_with=$d1 demo_without=$d0 check_exit=$c" | tee -a $res/SUMMARY
