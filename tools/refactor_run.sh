#!/bin/bash
# usage: refactor_run.sh <area> <x> "<Cxx Cyy ...>" [jobs]  -- behaviour-preserving change: every listed check must stay quiet (exit 0)
area=$1; x=$2; props=$3; jobs=${4:-6}
wt=/tmp/mut/wt_ref_$area; out=/tmp/mut/ref/$area; res=/tmp/mut/results; mkdir -p $res
cd $wt || exit 2
git checkout -q -- . ; git clean -fdq pydbml
git checkout -q --detach $(git -C /repo rev-parse HEAD)
if ! git apply $out/refactor_$x.diff; then echo "REF $area $x APPLY_FAILED" | tee -a $res/REFSUMMARY; exit 2; fi
t=$(/venv/bin/python -m pytest -q -p no:cacheprovider 2>&1 | tail -1)
for p in $props; do
  VP_REPO=$wt VP_TIMEOUT_SCALE=1.5 /venv/bin/python /verif/vp_check.py --property $p --tier quick --jobs $jobs --no-evidence > $res/ref_${area}_${x}_$p.check 2>&1; c=$?
  echo "REF $area $x $p tests=[$t] check_exit=$c $(grep -c '^VIOLATION' $res/ref_${area}_${x}_$p.check) violations" | tee -a $res/REFSUMMARY
done
git checkout -q -- . ; git clean -fdq pydbml
