"""Rewrite the kill-matrix table of DESIGN.md section 10.7 from seeded/*/meta.json."""
import glob, json, os, re
here = os.path.dirname(os.path.dirname(os.path.abspath(__file__)))
rows = []
first_hit = 0
for d in sorted(glob.glob(os.path.join(here, 'seeded', '*', 'meta.json'))):
    m = json.load(open(d))
    c = m['check_against_change']
    hist = c['history_of_check_exits']
    inst = ''
    for ln in c['output_excerpt']:
        mm = re.match(r'instance=(\S+)', ln)
        if mm:
            inst = mm.group(1)
            break
    first = 'detected' if hist[0] == 1 else 'missed'
    first_hit += hist[0] == 1
    rows.append('| %s_%s | %s | %s | `%s` |' % (m['property'], m['change'], first, 'detected' if c['detected'] else 'MISSED', inst))
table = '| change | first run | now | reported by instance |\n|---|---|---|---|\n' + '\n'.join(rows) + '\n\n'
path = os.path.join(here, 'DESIGN.md')
s = open(path).read()
a = s.index('| change | first run |'); b = s.index('### 10.8')
open(path, 'w').write(s[:a] + table + s[b:])
print(len(rows), 'changes;', first_hit, 'reported on their first run;', sum('MISSED' in r for r in rows), 'missed now')
