"""Refresh the 'quick' column of the DESIGN.md 10.5 table from the evidence files of the last quick run in /verif."""
import json, os, re
here = os.path.dirname(os.path.dirname(os.path.abspath(__file__)))
path = os.path.join(here, 'DESIGN.md')
s = open(path).read()
a = s.index('| id | harness families'); b = s.index('Every run also carries six conformance twins')
lines = s[a:b].split('\n')
for k, ln in enumerate(lines):
    m = re.match(r'\| (C\d\d) \|', ln)
    if not m:
        continue
    ev = os.path.join(here, 'evidence', m.group(1) + '.json')
    if not os.path.exists(ev):
        continue
    e = json.load(open(ev))
    if e.get('tier') != 'quick':
        continue
    c = e['coverage']
    own = [i for i in c['per_instance'] if not i['instance'].startswith('conformance')]
    cells = ln.split(' | ')
    cells[3] = '%d inst., %d paths, ~%d s' % (len(own), sum(i.get('paths') or 0 for i in own), round(e['wall_s']))
    lines[k] = ' | '.join(cells)
open(path, 'w').write(s[:a] + '\n'.join(lines) + s[b:])
