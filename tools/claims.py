"""Per-property claims (input of gen_manifest.py)."""
CLAIMED = {
    'C13': ('Every text-bearing site (14 sites) with a K-character symbolic text in each string style: stored text exact / normalised, '
            'render + parse returns the same text and content, rendering is a fixpoint; three styles stored identically; '
            'normalisation idempotent and equal to a reference normaliser; COMMENT ON literal and expression pass-through read back '
            'by an independent DDL reader. Decided for ALL code points of the class at once by the solver, bounded by K.',
            'DESIGN.md 6/C13', 'Four open findings (regions) are excluded while their witnesses fail: see known_findings.json.'),
}
_PENDING = 'check under construction in this session (harness not yet committed); not claimed until it runs clean on the unchanged tree'
NOT_APPLICABLE = {f'C{i:02d}': _PENDING for i in range(1, 19) if f'C{i:02d}' not in CLAIMED}
