"""Per-property claims (input of gen_manifest.py)."""
CLAIMED = {
    'C13': ('Every text-bearing site (14 sites) with a K-character symbolic text in each string style: stored text exact / normalised, '
            'render + parse returns the same text and content, rendering is a fixpoint; three styles stored identically; '
            'normalisation idempotent and equal to a reference normaliser; COMMENT ON literal and expression pass-through read back '
            'by an independent DDL reader. Decided for ALL code points of the class at once by the solver, bounded by K.',
            'DESIGN.md 6/C13', 'Three open findings (regions) are excluded while their witnesses fail; a fourth (non-ASCII blank lines) was closed by fix 9e24c2b: see known_findings.json.'),
    'C09': ('All histories of D container operations (add / delete / typed add_* / rename, table-level add/delete of columns and indexes) '
            'from five operation menus over a universe with engineered name, alias, enum, group and reference clashes; an independent '
            'list-based reference model is compared after EVERY step (membership, order, name/alias lookup, back-pointers, rejected '
            'operations leave no trace). Path tree exhausted by CrossHair, z3 deciding feasibility of each operation-code branch.',
            'DESIGN.md 6/C09', 'Open finding c09_rename_contained_table suspends the name-index clauses after the first rename of a contained table; the delete_index defect found by this check was repaired (c0beb09).'),
    'C17': ('43 inconsistency cases (element kind x missing attribute / detached or mixed reference endpoints, including a look-alike table '
            'of the same name and column names, and a table removed from its database through an equal twin, x route .sql/.dbml/.table1/'
            '.get_refs) after a symbolic prefix of legal edits, with symbolic names: the documented exception class and nothing else.',
            'DESIGN.md 6/C17', ''),
    'C18': ('Every acyclic inline-reference graph over n tables (symbolic adjacency booleans) x every insertion order x reference kind: '
            'CREATE TABLE statements read back by the DDL reader are a permutation of the tables, rendering is deterministic, the FOREIGN '
            'KEY clause sits in its key holder, and the target precedes the holder; after a rendering, an in-place edit of a reference '
            '(inline-ness, kind flipped so that the key holder changes) gives the script of a never-rendered model with the same content; '
            'a table without columns (API only) is still created exactly once.',
            'DESIGN.md 6/C18', 'Open finding c18_counting_heuristic: the ordering clause is only asserted where the counting heuristic '
            'of the unchanged tree promises it (target holds more counted inline refs, or as many and was added earlier).'),
    'C03': ('API-built (and one parsed) databases over the cross product of column flags, pk layouts (none / single / composite / pk index '
            '/ both), 10 default kinds incl. 0, False and the empty string, index options (unique, name, 6 types, single / composite / '
            'expression subjects), public and non-public schemas for tables and enums, table / column notes, with symbolic names: '
            'the statements read back by an independent tokenising DDL reader are exactly the expected ones, each once, nothing else; '
            'enum and table in the same non-public schema, two tables of one bare name in different schemas.',
            'DESIGN.md 6/C03', ''),
    'C04': ('Every reference kind (> < - <>) x single / composite x cross-schema / self reference x inline or not x named or not x '
            'all 36 update/delete action pairs, plus pairs of references and the three surface forms in parsed documents: exactly one '
            'correctly directed FOREIGN KEY per reference, inline XOR ALTER TABLE, join table for <>, read back by the DDL reader; '
            'layouts: public / other schema, both tables in one non-public schema, self reference inside such a schema, same bare name in two schemas.',
            'DESIGN.md 6/C04', ''),
    'C07': ('One fault per document in six base documents covering every grammar rule: a K-character fragment over the BMP inserted at '
            'token boundaries (accepted => content differs from the base and nothing was dropped) and single-character substitution '
            'over the BMP at every structural delimiter, quote, keyword letter, colour digit and reference operator (accepted => '
            'same delimiter / same letter up to case / hex digit / operator, closed literal sets stay closed). The solver quantifies '
            'over the replacement characters; positions are enumerated in batches (quick: a stride sample, thorough: all). Settings that '
            'belong to another context and run-together literals are rejected; after a document that fails behind complete elements, a '
            'valid document parses to exactly its own content (nothing of the rejected one leaks into a later result).',
            'DESIGN.md 6/C07', 'Open finding c07_unicode_upper_fold (U+0131 / U+017F accepted inside keywords) found by the solver.'),
    'C08': ('Each token of the six base documents (or the inside of each quoted token) replaced by K arbitrary BMP characters, and '
            'K-character soups after 18 structural prefixes (empty input, BOM, comment, inside settings / type arguments / notes / '
            'reference comments ...): parsing raises only parse errors, pydbml.exceptions or SyntaxError, and every database that is '
            'returned renders (.dbml/.sql of the database and of every element) without raising; every pairing of reference endpoints '
            'between tables whose generated join-column names can coincide (a.b_c / a_b.c, a column related to itself) x 4 operators x 3 forms.',
            'DESIGN.md 6/C08', 'Three crashes named in the property statement were repaired by fix: commits; open finding c08_huge_integer_default (an integer default of more than 4300 digits) lies outside the K-character bounds and is replayed as a pinned document (see known_findings.json).'),
    'C01': ('Scenario functions per grammar rule (column, table header/body, index, enum, reference, project/group/sticky, whole-document '
            'order and inline-vs-standalone equivalence) build the DBML text in a chosen surface spelling AND the expected content from '
            'the same symbolic arguments; the parsed database must equal the expected content exactly (nothing dropped, nothing extra). '
            'Names and free texts are K-character symbolic holes, setting presence / operator / form selectors are symbolic or fanned out '
            '(quoting, keyword case, one-line vs multi-line, settings order, body order, schema.name / bare / alias addressing). Numeric '
            'defaults keep their literal kind (2.0 and 0.0 are floats, integers beyond 2**53 are exact).',
            'DESIGN.md 6/C01 and 10.5', 'A finding of this check (pyparsing converted \\t etc. inside quoted identifiers) was repaired by a fix: commit.'),
    'C02': ('parse -> .dbml -> parse -> .dbml over the C01 scenario documents and over API-built databases (names that need quoting, '
            'reserved words as names of every element kind, schema-qualified tables and enums, aliases, composite / many-to-many / inline '
            'references, every column flag and default kind, column types mixing dots / arguments / brackets / blanks (17 shapes + a K-character '
            'type over the deciding characters), code points that are not in a Unicode normal form): identical content after re-parse and '
            'byte-identical second rendering.',
            'DESIGN.md 6/C02 and 10.5', 'Open findings of the renderer (falsy defaults dropped, enum names with a dot, trimmed reference column names, and the '
            'C13 regions) are excluded by narrow regions (see known_findings.json); instances whose whole domain lies in such a region are '
            'reported as excluded, not as held. Four renderer defects found by this check were repaired by fix: commits.'),
    'C05': ('Parsed documents with three tables in two schemas (two sharing the bare name), aliases, same-named enums in two schemas, '
            'inline / short / block / composite references whose endpoints are addressed by schema.name, bare name or alias (symbolic '
            'selector per endpoint), indexes, a group, a sticky note and a project: every link is checked by object IDENTITY '
            '(reference endpoints, back-pointers of columns / indexes / notes, enum-typed columns, group items, lookup by index / '
            'name / alias, get_refs, exactly one SQL key holder per reference); an alias spelled like the bare name of a public table; '
            'two sticky notes of one name.',
            'DESIGN.md 6/C05', ''),
    'C06': ('One rule violation per document with the clashing names chosen independently (the solver / path search finds the '
            'equality): duplicate tables (schema x name x alias x position x quoting), enums, groups, a table listed twice in a '
            'group under any addressing, identical references across inline / short / block forms and addressing modes, column-less '
            'tables, dangling table / column names in references, indexes and groups. Postconditions are IFF: the rule\'s error '
            'exactly when the rule is broken, otherwise a database holding both declarations.',
            'DESIGN.md 6/C06', 'Open finding c06_alias_ignores_schema.'),
    'C10': ('All edit histories of depth D from a menu of 29 in-place edits (renames of tables / schemas / columns / enums / items, '
            'type, flag, default, note, alias changes, reference kind / inline-ness / name / actions, added columns / indexes / items, '
            'removed indexes) on an API-built database and on the same shapes obtained from the parser (with a second enum of the same name '
            'in another schema); columns no edit gave a note to must show none; .dbml and .sql of the edited database and of its elements must equal those of a '
            'database freshly rebuilt from the final plain content by an independent rebuild oracle; what the edits intend for the references (kind, inline-ness) and for the index list (order, which index a delete removes) is recorded independently of the model and compared as well.',
            'DESIGN.md 6/C10', ''),
    'C12': ('All eight documented entry points (constructor with str / Path / text file, PyDBML.parse, PyDBML().parse, parse_file with '
            'path string / Path / text file) on a text whose first character is symbolic over the BMP (BOM or not) plus a note hole: same '
            'accept / reject decision, same error class, same content, BOM ignored on every route, file routes open with encoding utf8; '
            'fourteen non-str/Path/file source kinds (falsy ones included) raise TypeError and the empty string is an empty document; '
            'allow_properties and renderer classes take effect on every route that accepts them.',
            'DESIGN.md 6/C12', 'open() and file objects are stubs (stated in assumptions): real files and decoding are outside the claim.'),
    'C15': ('Documents with 0-2 properties in a table body and / or a column settings list, mixed with ordinary settings, notes and an index '
            'block at symbolic positions, one-line and multi-line, keys from an enumerated set, values symbolic: stored exactly and in '
            'order with the option on, database flag set, round trip through .dbml, flag flips switch rendering, syntax error with the option '
            'off, and identical parse and renderings under both option values for documents without properties; a property added in place '
            'to one column / table stays on that object (other objects, later parses and new API objects carry none).',
            'DESIGN.md 6/C15 and 10.5', 'Open finding: key with a keyword prefix. The property-after-newline defect found by this check was repaired.'),
    'C11': ('Sequences parse(A); parse(B); parse(A) where B is valid, syntactically faulty (symbolic garbage character), fails in the build '
            'stage, or is parsed with other options: equal content for A both times; two results of one document share no object and '
            'edits to one (project items, properties, notes, tables, names, enum items, index subjects) change neither the other nor a '
            'later parse. Re-entrancy and no-retention are decided through NON-INTERFERENCE: a write monitor over every pre-existing grammar '
            'element plus a fingerprint of the grammar graph, blueprint / parser classes and definitions modules must show no change - '
            'after the calls and also WHILE a parse call is in progress (a probe document inspects the shared state from inside the call).',
            'DESIGN.md 6/C11', 'Thread schedules are not explored and the garbage collector is not modelled: the concurrency clause rests on '
            'the non-interference argument (stated assumptions), the reclaim clause is only checked by weakref + gc in the untraced native runs.'),
    'C14': ('A comment (// or /* */, own line or end of line, K-character symbolic body with quotes, braces and syntax characters) at every '
            'line boundary of six base documents and at the inline positions before settings lists changes nothing but comment attributes; '
            'comments above / trailing / both / multi-line are stored on the element they belong to (table, enum, enum item, index, '
            'reference short and block, project, group, column); an element with a symbolic comment renders to DBML that re-parses to '
            'the same comment and to SQL whose statements are unchanged, with every comment line emitted as a -- line.',
            'DESIGN.md 6/C14', 'Open finding c14_column_comment_above; two grammar defects found by the check were repaired (fix: commits).'),
    'C16': ('Default renderers: each table / enum / standalone reference / group / sticky note / project text appears exactly once in the '
            'database text, for every evaluation order of element and database renderings, with no side effect on the model. Custom '
            'partial renderer classes (handler masks fanned out) given to Database or passed through the parser: attached elements and '
            'their columns render through them, unhandled types give the empty string, detached elements use the defaults (also an '
            'element removed through an equal twin object). The custom class is derived from BaseRenderer or from the default renderer '
            'class (registry of its own), used before or after a database with the default renderers has rendered, whose renderings must not change.',
            'DESIGN.md 6/C16', ''),
}
_PENDING = 'check under construction in this session (harness not yet committed); not claimed until it runs clean on the unchanged tree'
NOT_APPLICABLE = {f'C{i:02d}': _PENDING for i in range(1, 19) if f'C{i:02d}' not in CLAIMED}   # empty: every property is claimed
