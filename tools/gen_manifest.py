#!/usr/bin/env python3
"""Regenerates /verif/MANIFEST.json from the table below (keeps it valid at all times)."""
import json
import os

HERE = os.path.dirname(os.path.dirname(os.path.abspath(__file__)))
TECH = ('bounded symbolic execution of the real pydbml + pyparsing code with CrossHair 0.0.110; z3 5.1 decides every path '
        'condition; verdict = Confirmed over all paths / solver counterexample replayed natively')
NOTE = ('Trusted: CrossHair library models (+ engine_patches.py, cross-checked by harness/conformance self-test), z3, the oracles in '
        '/verif/oracle, pre-streamlined grammar. Holds only within the stated bounds (hole length K, element counts, history depth, '
        'character classes; see evidence.coverage.bounds). Inconclusive instances are listed and not counted as held.')

CLAIMED = {
    # id: (claim text, design section, extra note)
}
NOT_YET = {}

def load():
    import importlib.util
    spec = importlib.util.spec_from_file_location('claims', os.path.join(HERE, 'tools', 'claims.py'))
    m = importlib.util.module_from_spec(spec)
    spec.loader.exec_module(m)
    return m.CLAIMED, m.NOT_APPLICABLE


def main():
    claimed, na = load()
    checks = []
    for pid in sorted(claimed):
        text, ref, extra = claimed[pid]
        checks.append({
            'property_id': pid,
            'quick_cmd': f'/venv/bin/python /verif/vp_check.py --property {pid} --tier quick',
            'thorough_cmd': f'/venv/bin/python /verif/vp_check.py --property {pid} --tier thorough',
            'evidence_file': f'/verif/evidence/{pid}.json',
            'replay_cmd_template': '/venv/bin/python /verif/vp_check.py --replay {path}',
            'engine': 'crosshair-z3',
            'level_claimed': {'category': 'model_checking', 'text': text, 'design_ref': ref},
            'level_note': NOTE + (' ' + extra if extra else ''),
            'technique': TECH,
        })
    man = {
        'version': 1,
        'setup_cmd': '/venv/bin/python /verif/vp_check.py --setup',
        'hooks': {
            'guard': 'PYDBML_VERIF',
            'enable': 'no hooks: the checks import the unmodified modules from /repo (overlay venv .pth); nothing in /repo reads the guard',
            'baseline_off_cmd': 'cd /repo && /venv/bin/python -m pytest -ra -q -p no:cacheprovider --timeout=900 --continue-on-collection-errors',
            'source_commits': [],
            'add_only': True,
        },
        'engines': [{
            'name': 'crosshair-z3', 'path': '/verif/vp_check.py',
            'serves_properties': sorted(claimed),
            'kind_free_text': 'symbolic execution of the real Python code (CrossHair 0.0.110, icontract harnesses) with z3 5.1 as the deciding solver',
        }],
        'checks': checks,
        'notes': 'fix: commits in /repo and open findings are listed in /verif/known_findings.json; see DESIGN.md sections 5 and 10.',
        'not_applicable': [{'property_id': k, 'reason': v} for k, v in sorted(na.items())],
    }
    with open(os.path.join(HERE, 'MANIFEST.json'), 'w') as f:
        json.dump(man, f, indent=1)
    print('MANIFEST.json:', len(checks), 'checks,', len(na), 'not applicable')


if __name__ == '__main__':
    main()
