#!/usr/bin/env python3
"""Copies confirmed seeded changes from the scratch area (/tmp/mut) into /verif/seeded/<id>_<x>/ with meta.json.
A change is imported only if the runner confirmed: suite passes with it, demo fails with it, demo passes without it."""
import json
import os
import re
import shutil

SRC = '/tmp/mut/out'
RES = '/tmp/mut/results'
DST = '/verif/seeded'


def latest():
    out = {}
    for ln in open(os.path.join(RES, 'SUMMARY')):
        m = re.match(r'(C\d+) (\w) tests=\[(.*?)\] demo_with=(\d+) demo_without=(\d+) check_exit=(\d+)', ln)
        if m:
            hist = out.get((m.group(1), m.group(2)), {}).get('history', [])
            out[(m.group(1), m.group(2))] = {'tests': m.group(3), 'demo_with': int(m.group(4)), 'demo_without': int(m.group(5)),
                                             'check_exit': int(m.group(6)), 'history': hist + [int(m.group(6))]}
    return out


def needs(pid, x):
    """the section of the sub-agent's notes.md that describes change x (falls back to the head of the file)"""
    p = os.path.join(SRC, pid, 'notes.md')
    if not os.path.exists(p):
        return ''
    txt = open(p).read()
    lines = txt.split('\n')
    start = None
    for i, ln in enumerate(lines):
        if re.match(r'^#{1,4}\s*(change\s+)?[`(*]*' + x + r'\b[`)*]*\s*([-:.(\u2014]|$)', ln.strip(), re.I):
            start = i
            break
    if start is None:
        return txt[:2500]
    end = len(lines)
    for j in range(start + 1, len(lines)):
        if re.match(r'^#{1,4}\s', lines[j]):
            end = j
            break
    return '\n'.join(lines[start:end]).strip()[:4000]


# round 4: changes whose reporting instance was added after reading the sub-agent's report but BEFORE the change was run for the
# first time; the checks as they stood when the change arrived were not run against them, so their first run is recorded as a
# presumed miss (history 0 = presumed, not measured)
PRESUMED_MISS = {('C02', 'h'), ('C03', 'g'), ('C03', 'h'), ('C05', 'g'), ('C05', 'h'), ('C06', 'h'), ('C08', 'h'), ('C10', 'h'), ('C13', 'h'),
                 ('C16', 'g'), ('C16', 'h'), ('C18', 'h')}


def main():
    res = latest()
    for k in PRESUMED_MISS:
        if k in res and res[k]['history'][0] == 1:
            res[k]['history'] = [0] + res[k]['history']
            res[k]['presumed'] = True
    os.makedirs(DST, exist_ok=True)
    matrix = []
    for (pid, x), r in sorted(res.items()):
        ok = r['tests'].startswith('470 passed') and r['demo_with'] == 1 and r['demo_without'] == 0
        d = os.path.join(DST, f'{pid}_{x}')
        if not ok:
            print('NOT CONFIRMED', pid, x, r)
            continue
        os.makedirs(d, exist_ok=True)
        shutil.copy(os.path.join(SRC, pid, f'patch_{x}.diff'), os.path.join(d, 'patch.diff'))
        shutil.copy(os.path.join(SRC, pid, f'demo_{x}.py'), os.path.join(d, 'demo.py'))
        viol = []
        chk = os.path.join(RES, f'{pid}_{x}.check')
        if os.path.exists(chk):
            viol = [ln.strip() for ln in open(chk) if ln.startswith('VIOLATION') or ln.strip().startswith('instance=') or ln.strip().startswith('failure:')][:9]
        meta = {
            'property': pid,
            'change': x,
            'breaks': f'property {pid}; see notes',
            'needs_to_manifest': needs(pid, x),
            'confirmed_in_scratch_worktree': {
                'worktree': f'/tmp/mut/wt_{pid} (git worktree of /repo at HEAD, removed afterwards)',
                'ran': [
                    'git apply patch.diff',
                    '/venv/bin/python -m pytest -q -p no:cacheprovider   -> ' + r['tests'],
                    f'PYTHONPATH=<worktree> /venv/bin/python demo.py      -> exit {r["demo_with"]} with the change',
                    'git checkout -- .',
                    f'PYTHONPATH=<worktree> /venv/bin/python demo.py      -> exit {r["demo_without"]} without the change',
                ],
            },
            'check_against_change': {
                'command': f'VP_REPO=<worktree with the change> /venv/bin/python /verif/vp_check.py --property {pid} --tier quick',
                'exit': r['check_exit'],
                'detected': r['check_exit'] == 1,
                'history_of_check_exits': r['history'],
                'note': ('the instance that reports it was added after reading the report of the change and before its first run; the '
                         'checks as they stood when the change arrived were not run against it: first run recorded as a presumed miss'
                         if r.get('presumed') else
                         'first run missed it (exit 0); the check was strengthened and then reported it' if (r['history'][0] == 0 and r['check_exit'] == 1)
                         else ''),
                'output_excerpt': viol,
            },
        }
        json.dump(meta, open(os.path.join(d, 'meta.json'), 'w'), indent=1)
        matrix.append((pid, x, r['check_exit'] == 1))
    for pid, x, det in matrix:
        print(pid, x, 'DETECTED' if det else 'missed')
    print(sum(1 for m in matrix if m[2]), 'of', len(matrix), 'detected')


if __name__ == '__main__':
    main()
