"""Worker: decide ONE harness instance with CrossHair (z3) and print a JSON result line.

usage: vp_worker.py '<json spec>'
spec keys: module, factory, params, name, timeout, path_timeout, seed, native_limit,
           active_regions, twin (bool), symbolic (bool, default true)
"""
import ast
import collections
import importlib
import json
import os
import re
import sys
import time
import traceback

HERE = os.path.dirname(os.path.abspath(__file__))
if HERE not in sys.path:
    sys.path.insert(0, HERE)


def _emit(obj):
    sys.stdout.write('\n@@RESULT@@' + json.dumps(obj) + '\n')
    sys.stdout.flush()


def parse_call_args(message, names):
    """Extract the concrete argument vector from a CrossHair message 'when calling h(1, True)'."""
    m = re.search(r'when calling (h\([^()]*\))', message, re.S)
    if not m:
        return None
    try:
        call = ast.parse(m.group(1), mode='eval').body
        vals = [ast.literal_eval(a) for a in call.args]
        kw = {k.arg: ast.literal_eval(k.value) for k in call.keywords}
    except Exception:
        return None
    out = dict(zip(names, vals))
    out.update(kw)
    if set(out) != set(names):
        return None
    return out


def main():
    spec = json.loads(sys.argv[1])
    t0 = time.time()
    res = {'name': spec['name'], 'status': 'error', 'wall_s': 0.0}
    try:
        import engine_patches
        from harness import common
        patches = engine_patches.apply()
        common.prepare()
        common.set_active_regions(spec.get('active_regions', ()))
        mod = importlib.import_module(spec['module'])
        h = getattr(mod, spec['factory'])(**spec.get('params', {}))
        names = [n for n, _ in h.args]
        res['bounds'] = h.bounds_text()
        res['patches'] = patches

        # ---- native sanity vectors, with a profile of the pydbml functions entered -------------
        entered = set()
        repo_prefix = os.path.join(os.path.realpath(common.REPO), 'pydbml') + os.sep

        def prof(frame, event, arg):
            if event == 'call':
                fn = frame.f_code.co_filename
                if fn.startswith(repo_prefix):
                    entered.add(fn[len(repo_prefix):] + ':' + frame.f_code.co_name)

        vectors = h.sample_vectors(spec.get('seed', 0), spec.get('native_limit', 64))
        native_fail = None
        sys.setprofile(prof)
        try:
            tn = time.time()
            n_native = 0
            for a in vectors:
                r = h.native(a)
                n_native += 1
                if r != '':
                    native_fail = {'args': a, 'failure': r, 'input': _safe_describe(h, a)}
                    break
                if time.time() - tn > spec.get('native_budget', 20):
                    break
        finally:
            sys.setprofile(None)
        res['native_vectors'] = n_native
        res['functions'] = sorted(entered)
        if vectors:
            res['sample'] = {'args': vectors[len(vectors) // 2], 'input': _safe_describe(h, vectors[len(vectors) // 2])}
        if native_fail is not None and native_fail['failure'].startswith('harness body raised'):
            res.update(status='error', error=native_fail['failure'] + ' on ' + json.dumps(native_fail['args']))
            res['wall_s'] = time.time() - t0
            _emit(res)
            return
        if native_fail is not None:
            res.update(status='violation', via='native', counterexample=native_fail)
            res['wall_s'] = time.time() - t0
            _emit(res)
            return
        if not spec.get('symbolic', True):
            res.update(status='native_only')
            res['wall_s'] = time.time() - t0
            _emit(res)
            return

        # ---- symbolic run -----------------------------------------------------------------------
        import z3
        from crosshair.core_and_libs import analyze_function
        from crosshair.options import AnalysisOptionSet, AnalysisKind
        from crosshair.statespace import MessageType

        zstat = {'queries': 0, 'time': 0.0}
        orig_check = z3.Solver.check

        def counted_check(self, *a, **k):
            t = time.perf_counter()
            try:
                return orig_check(self, *a, **k)
            finally:
                zstat['queries'] += 1
                zstat['time'] += time.perf_counter() - t
        z3.Solver.check = counted_check

        def run(twin):
            common._State.twin = twin
            common._State.reached = 0
            opts = AnalysisOptionSet(
                analysis_kind=[AnalysisKind.icontract],
                per_condition_timeout=float(spec['timeout'] if not twin else min(60, spec['timeout'])),
                per_path_timeout=float(spec.get('path_timeout', 60)),
                report_all=True,
            )
            out = []
            stats = collections.Counter()
            for c in analyze_function(h.fn, opts):
                c.options.stats = stats
                for m in c.analyze():
                    out.append((m.state.name, m.message))
            return out, stats

        spy_stacks = None
        if os.environ.get('VP_SPY_REALIZE') == '1':
            # debugging aid: where do symbolic strings get realised (value-by-value enumeration)?
            from crosshair.libimpl import builtinslib as _bl
            spy_stacks = collections.Counter()
            _orig_realize = _bl.LazyIntSymbolicStr.__ch_realize__

            def _spy(self):
                st = traceback.extract_stack(limit=16)
                key = ' <- '.join(f'{f.filename.split("/")[-1]}:{f.lineno}:{f.name}' for f in reversed(st[:-1])
                                  if 'site-packages/crosshair' not in f.filename or 'libimpl' in f.filename)[:700]
                spy_stacks[key] += 1
                return _orig_realize(self)
            _bl.LazyIntSymbolicStr.__ch_realize__ = _spy
        msgs, stats = run(False)
        if spy_stacks is not None:
            res['realize_sites'] = spy_stacks.most_common(6)
        res['paths'] = int(stats.get('num_paths', 0))
        res['reached'] = common._State.reached
        res['solver_queries'] = zstat['queries']
        res['solver_s'] = round(zstat['time'], 3)
        states = [s for s, _ in msgs]
        res['messages'] = [f'{s}: {m[:300]}' for s, m in msgs]
        if any(s in ('POST_FAIL', 'EXEC_ERR', 'POST_ERR', 'PRE_INVALID', 'SYNTAX_ERR', 'IMPORT_ERR') for s in states):
            bad = [(s, m) for s, m in msgs if s in ('POST_FAIL', 'EXEC_ERR', 'POST_ERR')]
            if not bad:
                res.update(status='error', error='crosshair: ' + '; '.join(res['messages']))
            else:
                s, m = bad[0]
                a = parse_call_args(m, names)
                if a is None or not h.pre_ok(a):
                    res.update(status='engine_mismatch', error=f'cannot use counterexample: {m[:300]}')
                else:
                    r = h.native(a)
                    if r.startswith('harness body raised'):
                        res.update(status='error', error=r + ' on ' + json.dumps(a))
                    elif r != '':
                        res.update(status='violation', via='solver',
                                   counterexample={'args': a, 'failure': r, 'input': _safe_describe(h, a)})
                    else:
                        res.update(status='engine_mismatch',
                                   error=f'solver counterexample {a} does not reproduce natively: {m[:200]}')
        elif states and all(s == 'CONFIRMED' for s in states):
            if res['reached'] == 0:
                res.update(status='vacuous')
            else:
                res.update(status='confirmed')
        else:
            res.update(status='inconclusive')
        if spec.get('twin') and res['status'] == 'confirmed':
            tm, _ = run(True)
            res['twin'] = 'refuted' if any(s == 'POST_FAIL' for s, _ in tm) else 'not_refuted'
            if res['twin'] != 'refuted':
                res['status'] = 'vacuous'
    except BaseException as e:  # noqa
        res.update(status='error', error=f'{type(e).__name__}: {e}', trace=traceback.format_exc()[-1500:])
    res['wall_s'] = round(time.time() - t0, 2)
    _emit(res)


def _safe_describe(h, a):
    try:
        d = h.describe(dict(a))
        return json.loads(json.dumps(d, default=repr))
    except Exception as e:
        return {'describe_error': repr(e)}


if __name__ == '__main__':
    main()
