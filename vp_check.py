#!/usr/bin/env python3
"""Driver for the solver-based checks of PyDBML (DESIGN 2.4).

  vp_check.py --setup
  vp_check.py --property C13 --tier quick|thorough [--jobs N] [--only SUBSTR] [--list]
  vp_check.py --replay /verif/replay/C13/<instance>.json

Exit codes: 0 property held on everything explored (KNOWN-FINDING lines possible),
            1 unlisted violation replayed against the real code (VIOLATION line printed),
            3 harness / engine error (nothing believed).
"""
import argparse
import concurrent.futures
import json
import os
import subprocess
import sys
import time

HERE = os.path.dirname(os.path.abspath(__file__))
VENV = os.path.join(HERE, '.venv')
VPY = os.path.join(VENV, 'bin', 'python')
BASE_PY = '/venv/bin/python'
WHEELS = '/opt/veriftools/wheels'
REPO = os.environ.get('VP_REPO', '/repo')


# --------------------------------------------------------------------------------------------------
def setup(quiet=False):
    """Idempotent bootstrap of the overlay venv (committed files only; offline)."""
    marker = os.path.join(VENV, '.vp_ready')
    if os.path.exists(marker) and os.path.exists(VPY):
        return
    lock = os.path.join(HERE, '.venv.lock')
    import fcntl
    with open(lock, 'w') as lf:
        fcntl.flock(lf, fcntl.LOCK_EX)
        if os.path.exists(marker) and os.path.exists(VPY):
            return
        if not quiet:
            print('[setup] creating overlay venv', VENV, flush=True)
        subprocess.check_call([BASE_PY, '-m', 'venv', '--clear', VENV])
        sp = os.path.join(VENV, 'lib', 'python3.12', 'site-packages')
        with open(os.path.join(sp, 'vp_overlay.pth'), 'w') as f:
            f.write('/venv/lib/python3.12/site-packages\n/repo\n')
        env = dict(os.environ, PIP_NO_INDEX='1', PIP_DISABLE_PIP_VERSION_CHECK='1')
        subprocess.check_call([VPY, '-m', 'pip', 'install', '-q', '--no-index', '--find-links', WHEELS,
                               'crosshair-tool', 'icontract'], env=env)
        subprocess.check_call([VPY, '-c', 'import crosshair, icontract, z3, pyparsing, pydbml'])
        open(marker, 'w').write('ok\n')


def reexec_in_venv():
    if os.path.realpath(sys.prefix) != os.path.realpath(VENV):
        setup(quiet=True)
        os.execv(VPY, [VPY, os.path.abspath(__file__)] + sys.argv[1:])


# --------------------------------------------------------------------------------------------------
def run_worker(spec, hard_timeout):
    t0 = time.time()
    env = dict(os.environ, PYTHONHASHSEED='0')
    try:
        p = subprocess.run([VPY, os.path.join(HERE, 'vp_worker.py'), json.dumps(spec)],
                           stdout=subprocess.PIPE, stderr=subprocess.PIPE, timeout=hard_timeout, env=env, cwd=HERE)
    except subprocess.TimeoutExpired:
        return {'name': spec['name'], 'status': 'inconclusive', 'error': f'hard timeout {hard_timeout}s',
                'wall_s': round(time.time() - t0, 2)}
    out = p.stdout.decode('utf8', 'replace')
    k = out.rfind('@@RESULT@@')
    if k < 0:
        return {'name': spec['name'], 'status': 'error',
                'error': f'worker exit {p.returncode}: ' + p.stderr.decode('utf8', 'replace')[-800:],
                'wall_s': round(time.time() - t0, 2)}
    try:
        return json.loads(out[k + len('@@RESULT@@'):].strip().splitlines()[0])
    except Exception as e:
        return {'name': spec['name'], 'status': 'error', 'error': f'bad worker output: {e}',
                'wall_s': round(time.time() - t0, 2)}


def load_known():
    p = os.path.join(HERE, 'known_findings.json')
    if not os.path.exists(p):
        return {'findings': [], 'fixed': []}
    return json.load(open(p))


def write_replay(pid, inst, res):
    d = os.path.join(HERE, 'replay', pid)
    os.makedirs(d, exist_ok=True)
    path = os.path.join(d, inst['name'].replace('/', '_') + '.json')
    with open(path, 'w') as f:
        json.dump({'property': pid, 'module': inst['module'], 'factory': inst['factory'],
                   'params': inst.get('params', {}), 'args': res['counterexample']['args'],
                   'failure': res['counterexample']['failure'], 'input': res['counterexample'].get('input'),
                   'how': 'vp_check.py --replay <this file>  (rebuilds the input and runs it against /repo, untraced)'},
                  f, indent=1, default=repr)
    return path


def do_replay(path):
    sys.path.insert(0, HERE)
    spec = json.load(open(path))
    import importlib
    import engine_patches  # noqa: F401
    from harness import common
    common.prepare()
    common.set_active_regions(())
    h = getattr(importlib.import_module(spec['module']), spec['factory'])(**spec['params'])
    print('input:', json.dumps(h.describe(dict(spec['args'])), indent=1, default=repr))
    r = h.native(spec['args'])
    if r:
        print(f"VIOLATION property={spec['property']} replay={path}")
        print('failure:', r)
        return 1
    print('replay: property holds on this input')
    return 0


# --------------------------------------------------------------------------------------------------
def main():
    ap = argparse.ArgumentParser()
    ap.add_argument('--setup', action='store_true')
    ap.add_argument('--property')
    ap.add_argument('--tier', default=os.environ.get('VERIF_TIER', 'quick'))
    ap.add_argument('--jobs', type=int, default=int(os.environ.get('VP_JOBS', '0')) or (os.cpu_count() or 4))
    ap.add_argument('--only')
    ap.add_argument('--every', type=int, default=0)
    ap.add_argument('--offset', type=int, default=0)
    ap.add_argument('--list', action='store_true')
    ap.add_argument('--replay')
    ap.add_argument('--no-evidence', action='store_true')
    ap.add_argument('--no-conformance', action='store_true')
    ap.add_argument('--fail-fast', action='store_true', help='do not start further instances once a violation was replayed (mutant runs)')
    ap.add_argument('--scale', type=float, default=float(os.environ.get('VP_TIMEOUT_SCALE', '1.5')),
                    help='factor on every per-condition timeout (1.5: the same instances were measured 1.0x-1.55x apart between sessions on this sandbox)')
    args = ap.parse_args()

    if args.setup:
        setup()
        print('[setup] ok')
        return 0
    reexec_in_venv()
    if args.replay:
        return do_replay(args.replay)

    sys.path.insert(0, HERE)
    pid = args.property
    tier = args.tier if args.tier in ('quick', 'thorough', 'full') else 'quick'
    seed = int(os.environ.get('VERIF_SEED', '0') or 0)
    import importlib
    conf = importlib.import_module('harness.conformance')
    if pid == 'CONF':
        mod = conf
        insts = conf.instances(tier)
    else:
        mod = importlib.import_module('harness.' + pid.lower())
        # 'full' = the complete cross product a module defines for its deep tier; 'thorough' = the registered deep tier: the same
        # list thinned deterministically (every THOROUGH_STRIDE-th instance of each family) so that the command finishes in about 20 minutes
        insts = mod.instances('thorough' if tier == 'full' else tier)
        if tier == 'thorough':
            # thinned per family (first two components of the instance name), so every family keeps at least its first instance
            stride, seen, kept = getattr(mod, 'THOROUGH_STRIDE', 1), {}, []
            for i in insts:
                fam = '/'.join(i['name'].split('/')[:2])
                if seen.get(fam, 0) % stride == 0:
                    kept.append(i)
                seen[fam] = seen.get(fam, 0) + 1
            insts = kept
        for i in insts:
            i.setdefault('module', 'harness.' + pid.lower())
        if not args.only and not args.no_conformance:
            # engine-fidelity twins ride along with every check (DESIGN 2.6): a disagreement makes the run exit 3
            mini = ('relationships_aliases.dbml', 'schemas', 'props', 'helpers/0', 'helpers/2', 'helpers/6')
            insts += [i for i in conf.instances('quick') if any(i['name'].endswith(m) for m in mini)]   # full set: --property CONF
    if args.only:
        insts = [i for i in insts if args.only in i['name']]
    if args.every:
        insts = insts[args.offset::args.every]      # measurement aid (sizing the thorough tier); no evidence is written
    if args.list:
        for i in insts:
            print(i['name'], i.get('timeout'))
        print(len(insts), 'instances')
        return 0

    t0 = time.time()
    known = load_known()
    open_findings = [f for f in known.get('findings', []) if pid in f.get('properties', [f.get('property')])]

    # ---- known findings: replay each witness; a region is excluded only while its witness fails --
    active = []
    kf_lines = []
    kf_checked = 0
    for f in open_findings:
        w = f['witness']
        w = f.get('witnesses', {}).get(pid, w)
        spec = {'name': 'witness:' + f['region'], 'module': w['module'], 'factory': w['factory'],
                'params': w.get('params', {}), 'witness_args': w['args']}
        r = run_witness(spec)
        kf_checked += 1
        if r.get('status') == 'fails':
            active.append(f['region'])
            kf_lines.append(f"KNOWN-FINDING: property={pid} {f['what']} [region {f['region']}; observed: {r.get('failure', '')[:160]}]")
        elif r.get('status') == 'passes':
            print(f"[known] witness of region {f['region']} no longer fails: region NOT excluded", flush=True)
        else:
            print(f"[known] witness of region {f['region']} could not be evaluated: {r}", flush=True)
            return 3
    for ln in kf_lines:
        print(ln, flush=True)

    # ---- run instances ---------------------------------------------------------------------------
    # scheduling only (no influence on verdicts): longest instances first, by the wall times of an earlier run if recorded
    costs = {}
    try:
        costs = json.load(open(os.path.join(HERE, 'tools', 'costs.json'))).get(pid, {}).get(tier, {})
    except Exception:
        pass
    insts.sort(key=lambda i: (-i.get('timeout', 60), -costs.get(i['name'], 1e9)))
    results = []
    print(f'[{pid}] tier={tier} instances={len(insts)} jobs={args.jobs} active_regions={active}', flush=True)

    stop = {'flag': False}

    def job(i):
        if stop['flag']:
            return i, {'name': i['name'], 'status': 'skipped', 'wall_s': 0.0}
        if any(v in active for v in i.get('vacuous_if', ())):
            # whole input domain inside an excluded known-finding region (declared by the harness): not run while the finding is open
            return i, {'name': i['name'], 'status': 'excluded', 'wall_s': 0.0}
        spec = {'name': i['name'], 'module': i['module'], 'factory': i['factory'], 'params': i.get('params', {}),
                'timeout': i.get('timeout', 120) * args.scale, 'path_timeout': i.get('path_timeout', 60) * args.scale,
                'seed': seed, 'native_limit': i.get('native_limit', 48), 'active_regions': active,
                'twin': bool(i.get('twin', tier in ('thorough', 'full') and i.get('twin_ok', True))),
                'symbolic': i.get('symbolic', True)}
        r = run_worker(spec, hard_timeout=spec['timeout'] * 2.0 + 120)
        if r.get('status') == 'vacuous' and any(v in active for v in i.get('vacuous_if', ())):
            # the whole input domain of this instance lies inside an excluded known-finding region: nothing to decide now;
            # it becomes a live check again as soon as the finding's witness stops failing
            r['status'] = 'excluded'
        if args.fail_fast and r.get('status') == 'violation':
            stop['flag'] = True
        return i, r

    with concurrent.futures.ThreadPoolExecutor(max_workers=args.jobs) as ex:
        for i, r in ex.map(job, insts):
            results.append((i, r))
            extra = r.get('error', '') if r['status'] not in ('confirmed',) else ''
            print(f"  {r['status']:<15} {i['name']:<60} paths={r.get('paths', '-')} reached={r.get('reached', '-')} "
                  f"z3={r.get('solver_queries', '-')}/{r.get('solver_s', '-')}s wall={r.get('wall_s')}s {extra[:200]}",
                  flush=True)

    # ---- verdict -------------------------------------------------------------------------------
    by = {}
    for i, r in results:
        by.setdefault(r['status'], []).append((i, r))
    violations = []
    for i, r in by.get('violation', []):
        path = write_replay(pid, i, r)
        violations.append((i, r, path))
    rc = 0
    if violations:
        rc = 1
    elif by.get('error') or by.get('engine_mismatch') or by.get('vacuous'):
        rc = 3
    elif not by.get('confirmed') and not by.get('native_only'):
        rc = 3

    # functions of /repo entered by the property's own harness bodies (the ride-along conformance twins touch the whole pipeline)
    functions = sorted({f for i, r in results if not i['name'].startswith('conformance/') or pid == 'CONF' for f in r.get('functions', [])})
    samples = []
    for i, r in results[:]:
        if 'sample' in r and len(samples) < 6:
            samples.append({'instance': i['name'], 'bounds': r.get('bounds'), 'verdict': r['status'],
                            'paths': r.get('paths'), 'example_input': r['sample'].get('input')})
    for i, r, path in violations:
        samples.append({'instance': i['name'], 'verdict': 'violation', 'counterexample': r['counterexample'], 'replay': path})
    cov = {
        'states': max(1, sum(int(r.get('paths') or 0) for _, r in results)),
        'transitions': max(1, sum(int(r.get('solver_queries') or 0) for _, r in results)),
        'traces_validated_against_impl': sum(int(r.get('native_vectors') or 0) for _, r in results) + kf_checked + len(violations),
        'samples': samples or [{'note': 'no instance produced a sample'}],
        'evaluations': len(results),
        'distinct_nontrivial': sum(1 for _, r in results if r['status'] == 'confirmed' and (r.get('reached') or 0) > 0),
        'rule': 'one evaluation = one harness instance (function x hole sites x lengths x classes x fanned-out selectors) decided '
                'by CrossHair/z3 over all values of its symbolic arguments; non-trivial = confirmed over all paths AND at least '
                'one explored path reached the final comparison (reach counter > 0)',
        'exhaustive': False,
        'instances': len(results),
        'confirmed': len(by.get('confirmed', [])),
        'refuted': len(by.get('violation', [])),
        'inconclusive': [i['name'] for i, _ in by.get('inconclusive', [])],
        'excluded_by_known_finding': [i['name'] for i, _ in by.get('excluded', [])],
        'errors': [{'instance': i['name'], 'status': r['status'], 'error': r.get('error')} for i, r in
                   by.get('error', []) + by.get('engine_mismatch', []) + by.get('vacuous', [])],
        'paths_reaching_final_comparison': sum(int(r.get('reached') or 0) for _, r in results),
        'solver_queries': sum(int(r.get('solver_queries') or 0) for _, r in results),
        'solver_s': round(sum(float(r.get('solver_s') or 0) for _, r in results), 2),
        'cpu_wall_sum_s': round(sum(float(r.get('wall_s') or 0) for _, r in results), 1),
        'functions_encoded': functions,
        'engine': 'CrossHair 0.0.110 (symbolic execution of the real modules imported from %s) on z3 %s' % (REPO, _z3v()),
        'bounds': {i['name']: r.get('bounds') for i, r in results},
        'per_instance': [{'instance': i['name'], 'status': r['status'], 'paths': r.get('paths'), 'reached': r.get('reached'),
                          'solver_queries': r.get('solver_queries'), 'solver_s': r.get('solver_s'), 'wall_s': r.get('wall_s'),
                          'native_vectors': r.get('native_vectors'), 'twin': r.get('twin')} for i, r in results],
        'known_findings_printed': kf_lines,
        'excluded_regions': active,
        'trusted_base': ['CrossHair 0.0.110 library models + engine_patches.py', 'z3', 'pyparsing 3.3.2 traced as-is',
                         'oracles in /verif/oracle'],
    }
    ev = {
        'property_id': pid, 'tier': tier, 'seed': seed, 'level': 'model_checking', 'coverage': cov,
        'assumptions': list(getattr(mod, 'ASSUMPTIONS', [])) + [
            'grammar pre-streamlined before tracing (parse_string would do it itself; streamline is idempotent)',
            'pyparsing elements declared concrete to CrossHair (__ch_deep_realize__)',
            'inconclusive instances (timeouts) are NOT counted as held',
        ] + [f'known-finding region excluded while its witness still fails: {a}' for a in active],
        'wall_s': round(time.time() - t0, 2), 'violations': len(violations),
    }
    if not args.no_evidence and not args.only and not args.every:
        os.makedirs(os.path.join(HERE, 'evidence'), exist_ok=True)
        with open(os.path.join(HERE, 'evidence', pid + '.json'), 'w') as f:
            json.dump(ev, f, indent=1, default=repr)

    for i, r, path in violations:
        print(f'VIOLATION property={pid} replay={path}')
        print(f"  instance={i['name']} via={r.get('via')} args={r['counterexample']['args']}")
        print(f"  failure: {r['counterexample']['failure'][:500]}")
    for st in ('error', 'engine_mismatch', 'vacuous'):
        for i, r in by.get(st, []):
            print(f"HARNESS-ERROR {st} instance={i['name']}: {r.get('error', '')[:600]}")
            if r.get('trace'):
                print(r['trace'])
    for i, r in by.get('inconclusive', []):
        print(f"INCONCLUSIVE instance={i['name']} ({r.get('error', 'condition timeout')}; not counted as held)")
    print(f"[{pid}] {tier}: confirmed={len(by.get('confirmed', []))} violation={len(violations)} "
          f"inconclusive={len(by.get('inconclusive', []))} error={len(by.get('error', []) + by.get('engine_mismatch', []) + by.get('vacuous', []))} "
          f"wall={ev['wall_s']}s exit={rc}", flush=True)
    return rc


def _z3v():
    try:
        import z3
        return z3.get_version_string()
    except Exception:
        return '?'


def run_witness(spec):
    code = (
        "import sys, json, importlib; sys.path.insert(0, %r)\n"
        "import engine_patches\n"
        "from harness import common\n"
        "spec = json.loads(sys.argv[1])\n"
        "common.prepare(); common.set_active_regions(())\n"
        "h = getattr(importlib.import_module(spec['module']), spec['factory'])(**spec['params'])\n"
        "r = h.native(spec['witness_args'])\n"
        "print('@@W@@' + json.dumps({'status': 'fails' if r else 'passes', 'failure': r}))\n" % HERE)
    try:
        p = subprocess.run([VPY, '-c', code, json.dumps(spec)], stdout=subprocess.PIPE, stderr=subprocess.PIPE,
                           timeout=120, cwd=HERE)
    except subprocess.TimeoutExpired:
        return {'status': 'timeout'}
    out = p.stdout.decode('utf8', 'replace')
    k = out.rfind('@@W@@')
    if k < 0:
        return {'status': 'error', 'error': p.stderr.decode('utf8', 'replace')[-500:]}
    return json.loads(out[k + 5:].strip().splitlines()[0])


if __name__ == '__main__':
    sys.exit(main())
