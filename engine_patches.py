"""Corrections to CrossHair 0.0.110 library models used by PyDBML (DESIGN 2.5).

1. relib._Match.expand ignores backslash escapes of a re.sub replacement template
   (`re.sub(r"('''|')", r'\\\\\\1', s)` yields two backslashes on symbolic input).
2. relib._subn drops the character that follows an empty match.

Both touch CrossHair only; `selftest()` in harness/conformance.py compares symbolic and native results.
"""
import re

APPLIED = []
DEBUG_HITS = []


def apply():
    if APPLIED:
        return APPLIED
    import crosshair.core_and_libs  # noqa: F401  (performs CrossHair's own patch registrations first)
    from crosshair.libimpl import relib
    from crosshair import core
    from crosshair.tracers import NoTracing
    from crosshair.util import CrossHairInternal  # noqa: F401
    from crosshair.core import realize

    def expand(self, template):
        with NoTracing():
            template = realize(template)
            pattern = self.re if hasattr(self, 're') else None
            if pattern is None or not isinstance(pattern, re.Pattern):
                pattern = re.compile(realize(self._regex.pattern)) if hasattr(self, '_regex') else None
            parts = re._parser.parse_template(template, pattern)
        out = template[:0]
        for p in parts:
            if isinstance(p, int):
                g = self.group(p)
                if g is not None:
                    out = out + g
            elif p:
                out = out + p
        return out

    # find how _Match stores its pattern
    relib._Match.expand = expand
    APPLIED.append('relib._Match.expand: replacement template parsed with re._parser.parse_template')

    def _subn(self, repl, string, count=0):
        if not isinstance(self, re.Pattern):
            raise TypeError
        if isinstance(repl, relib._STR_AND_BYTES_TYPES):
            relib._check_str_or_bytes(self, repl)

            def replfn(m):
                return m.expand(repl)
        elif callable(repl):
            replfn = repl
        else:
            raise TypeError
        relib._check_str_or_bytes(self, string)
        if not isinstance(count, int):
            raise TypeError
        match = self.search(string)
        if match is None:
            return (string, 0)
        result_prefix = string[: match.start()] + replfn(match)
        if count == 1:
            return (result_prefix + string[match.end():], 1)
        if match.end() == match.start():
            if match.end() >= len(string):
                return (result_prefix, 1)
            result_prefix = result_prefix + string[match.end(): match.end() + 1]
            remaining = string[match.end() + 1:]
        else:
            remaining = string[match.end():]
        result_suffix, n = _subn(self, repl, remaining, count - 1)
        return (result_prefix + result_suffix, n + 1)

    def _sub(self, repl, string, count=0):
        return _subn(self, repl, string, count)[0]

    relib._subn = _subn
    relib._sub = _sub
    core._PATCH_REGISTRATIONS[re.Pattern.sub] = _sub
    core._PATCH_REGISTRATIONS[re.Pattern.subn] = _subn
    APPLIED.append('relib._subn: character after an empty match is copied, not dropped')

    # 3. simplestructs.ShellMutableMap.copy() rebuilds the length from the inner map only and forgets the mutations:
    #    the copy of a dict filled by item assignment has len 0 / is falsy although its items are there.
    #    pyparsing's ParseResults.copy() + __iadd__ (`if other._tokdict:`) then drops every results name.
    from crosshair import simplestructs

    def _map_copy(self):
        m = simplestructs.ShellMutableMap(self._inner)
        m._mutations = self._mutations.copy()
        m._len = self._len
        return m
    simplestructs.ShellMutableMap.copy = _map_copy
    APPLIED.append('simplestructs.ShellMutableMap.copy: length of the copy taken from the original (was: inner map only)')
    import os
    if os.environ.get('VP_NO_PERF_PATCHES') != '1':
        APPLIED.extend(apply_perf())
        APPLIED.append(apply_condition_cache())
    APPLIED.append(apply_symbolic_format())
    return APPLIED


# --------------------------------------------------------------------------------------------------
# Performance patches (semantics-preserving): CrossHair decides str.upper / lower / isspace / splitlines
# on a symbolic character through large Unicode table functions inside z3, and calls the solver even for
# concrete characters of a mixed string.  pyparsing's CaselessLiteral calls .upper() on every slice it
# tries, textwrap.indent calls .splitlines() on every rendered block.  The replacements below decide
# concrete characters concretely and symbolic ones with small explicit range formulas DERIVED AT IMPORT
# FROM THE RUNNING INTERPRETER (scan of all code points), falling back to CrossHair's own table model
# outside the ranges.  harness/conformance.py cross-checks them against native execution.

def _ranges_where(pred):
    out = []
    start = None
    for c in range(0x110000):
        ok = pred(c)
        if ok and start is None:
            start = c
        elif not ok and start is not None:
            out.append((start, c - 1))
            start = None
    if start is not None:
        out.append((start, 0x10FFFF))
    return out


_PERF = []


def apply_perf():
    if _PERF:
        return _PERF
    import z3
    from crosshair.libimpl import builtinslib as bl
    from crosshair.tracers import NoTracing, ResumedTracing
    from crosshair.statespace import context_statespace
    SymbolicInt = bl.SymbolicInt
    Lazy = bl.LazyIntSymbolicStr
    Any_ = bl.AnySymbolicStr

    space_ranges = _ranges_where(lambda c: chr(c).isspace())
    nl_ranges = _ranges_where(lambda c: len(('a' + chr(c) + 'b').splitlines()) == 2)
    up_limit = next(c for c in range(0x110000)
                    if chr(c).upper() != (chr(c - 32) if 97 <= c <= 122 else chr(c)))
    lo_limit = next(c for c in range(0x110000)
                    if chr(c).lower() != (chr(c + 32) if 65 <= c <= 90 else chr(c)))

    def in_ranges(smt, ranges):
        return z3.Or(*[(smt == a) if a == b else z3.And(smt >= a, smt <= b) for a, b in ranges])

    orig_upper = Any_.upper
    orig_lower = Any_.lower

    def upper(self):
        if len(self) != 1:
            return "".join([ch.upper() for ch in self])
        char = self[0]
        codepoint = ord(char)
        with NoTracing():
            if type(codepoint) is int:
                return chr(codepoint).upper()
            space = context_statespace()
            smt = SymbolicInt._coerce_to_smt_sort(codepoint)
            if space.smt_fork(smt < up_limit):
                if space.smt_fork(z3.And(smt >= 97, smt <= 122)):
                    return Lazy([SymbolicInt(smt - 32)])
                return char
        return orig_upper(self)

    def lower(self):
        if len(self) != 1:
            return "".join([ch.lower() for ch in self])
        char = self[0]
        codepoint = ord(char)
        with NoTracing():
            if type(codepoint) is int:
                return chr(codepoint).lower()
            space = context_statespace()
            smt = SymbolicInt._coerce_to_smt_sort(codepoint)
            if space.smt_fork(smt < lo_limit):
                if space.smt_fork(z3.And(smt >= 65, smt <= 90)):
                    return Lazy([SymbolicInt(smt + 32)])
                return char
        return orig_lower(self)

    def isspace(self):
        with NoTracing():
            space = context_statespace()
            with ResumedTracing():
                if self.__len__() == 0:
                    return False
                for char in self:
                    codepoint = ord(char)
                    with NoTracing():
                        if type(codepoint) is int:
                            if not chr(codepoint).isspace():
                                return False
                            continue
                        smt = SymbolicInt._coerce_to_smt_sort(codepoint)
                        if not space.smt_fork(in_ranges(smt, space_ranges)):
                            return False
        return True

    def splitlines(self, keepends=False):
        mylen = self.__len__()
        if mylen == 0:
            return []
        for idx, ch in enumerate(self):
            codepoint = ord(ch)
            with NoTracing():
                if type(codepoint) is int:
                    if len(('a' + chr(codepoint) + 'b').splitlines()) != 2:
                        continue
                else:
                    space = context_statespace()
                    smt = SymbolicInt._coerce_to_smt_sort(codepoint)
                    if not space.smt_fork(in_ranges(smt, nl_ranges)):
                        continue
            if codepoint == ord("\r"):
                if idx + 1 < mylen and self[idx + 1] == "\n":
                    token = self[: idx + 2] if keepends else self[:idx]
                    return [token] + self[idx + 2:].splitlines(keepends)
            token = self[: idx + 1] if keepends else self[:idx]
            return [token] + self[idx + 1:].splitlines(keepends)
        return [self]

    Any_.upper = upper
    Any_.lower = lower
    Any_.isspace = isspace
    Any_.splitlines = splitlines
    _PERF.append(f'AnySymbolicStr.upper/lower: explicit ASCII fast path below U+{up_limit:04X}/U+{lo_limit:04X}, table model above')
    _PERF.append(f'AnySymbolicStr.isspace/splitlines: explicit range formulas derived from the interpreter '
                 f'({len(space_ranges)} / {len(nl_ranges)} ranges); concrete characters decided concretely')
    return _PERF


def apply_condition_cache():
    """CrossHair re-derives (signature, type hints, contracts) of EVERY called plain function on EVERY call to
    find out whether it carries contracts (enforce.py: trace_call -> get_fn_conditions).  Only the harness
    carries contracts, and contracts do not change during a run, so the answer is memoised per function
    object.  Pure performance: the same Conditions object is returned that would be recomputed."""
    from crosshair import condition_parser as cp
    if getattr(cp.CompositeConditionParser, '_vp_cached', False):
        return 'condition cache already installed'
    orig = cp.CompositeConditionParser.get_fn_conditions
    cache = {}
    MISSING = object()

    import types

    def get_fn_conditions(self, fn):
        d = fn.descriptor
        if type(d) is not types.FunctionType and type(d) is not types.BuiltinFunctionType:
            return orig(self, fn)
        key = (id(self), id(fn.context), fn.name, id(d))
        hit = cache.get(key, MISSING)
        if hit is MISSING:
            hit = (orig(self, fn), d, fn.context)   # keep d alive so its id is not reused
            cache[key] = hit
        return hit[0]

    cp.CompositeConditionParser.get_fn_conditions = get_fn_conditions
    cp.CompositeConditionParser._vp_cached = True
    return 'CompositeConditionParser.get_fn_conditions memoised per function object'


def apply_symbolic_format():
    """str.format on a SYMBOLIC template: CrossHair realises the whole template (value-by-value enumeration of every
    symbolic character in it).  PyDBML's SQL reference renderer formats a template that contains user names.  This
    model keeps the template symbolic for the simple grammar  literal | '{{' | '}}' | '{' keyword-name '}'  and falls
    back to CrossHair's own (realising) model for anything else (positional fields, conversions, format specs,
    attribute / index access).  Cross-checked against native str.format by harness/conformance.py."""
    from crosshair import core
    from crosshair.libimpl import builtinslib as bl
    from crosshair.tracers import NoTracing, ResumedTracing
    orig = core._PATCH_REGISTRATIONS.get(str.format)
    if orig is None or getattr(orig, '_vp_symbolic_format', False):
        return 'str.format model unchanged'

    def _str_format(self, /, *a, **kw):
        with NoTracing():
            symbolic = isinstance(self, bl.AnySymbolicStr)
        if not symbolic or a:
            return orig(self, *a, **kw)
        DEBUG_HITS.append(1)
        n = len(self)
        pieces = []
        start = 0
        i = 0
        while i < n:
            ch = self[i]
            if ch == '{':
                if i + 1 < n and self[i + 1] == '{':
                    pieces.append(self[start:i + 1])
                    i += 2
                    start = i
                    continue
                j = i + 1
                while j < n and self[j] != '}':
                    c2 = self[j]
                    if c2 == '{' or c2 == '!' or c2 == ':' or c2 == '.' or c2 == '[':
                        return orig(self, *a, **kw)
                    j += 1
                if j >= n:
                    raise ValueError("expected '}' before end of string")
                name = core.realize(self[i + 1:j])
                if name == '' or name.isdigit():
                    return orig(self, *a, **kw)
                pieces.append(self[start:i])
                val = kw[name]
                pieces.append(val if isinstance(val, str) else format(val, ''))
                i = j + 1
                start = i
            elif ch == '}':
                if i + 1 < n and self[i + 1] == '}':
                    pieces.append(self[start:i + 1])
                    i += 2
                    start = i
                    continue
                raise ValueError("Single '}' encountered in format string")
            else:
                i += 1
        pieces.append(self[start:n])
        out = ''
        for p in pieces:
            out = out + p
        return out

    _str_format._vp_symbolic_format = True
    core._PATCH_REGISTRATIONS[str.format] = _str_format

    def format_method(self, *a, **kw):
        return _str_format(self, *a, **kw)
    bl.AnySymbolicStr.format = format_method
    return "str.format: symbolic template kept symbolic for literal / '{{' / '}}' / '{name}' (fallback: CrossHair's realising model)"
