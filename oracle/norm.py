"""norm(text): reference note normaliser written from the statement of C13 (DESIGN 4.2).

"stored after removing leading/trailing blank lines and the indentation common to all lines".
Works on code points only (no isspace / regex), so symbolic text stays symbolic.
"""


def _blank(line):
    for ch in line:
        if ch != ' ' and ch != '\t':
            return False
    return True


def _indent_len(line):
    n = 0
    for ch in line:
        if ch == ' ' or ch == '\t':
            n += 1
        else:
            break
    return n


def norm(text):
    lines = text.split('\n')
    # drop leading / trailing blank lines
    start = 0
    while start < len(lines) and _blank(lines[start]):
        start += 1
    end = len(lines)
    while end > start and _blank(lines[end - 1]):
        end -= 1
    lines = lines[start:end]
    if not lines:
        return ''
    common = None
    for ln in lines:
        if not _blank(ln):
            k = _indent_len(ln)
            if common is None or k < common:
                common = k
    common = common or 0
    return '\n'.join(ln[common:] for ln in lines)


def norm_equiv(a, b):
    """equal up to the blanks kept on whitespace-only lines (the property does not say whether such a line keeps them)"""
    la, lb = a.split('\n'), b.split('\n')
    if len(la) != len(lb):
        return False
    for x, y in zip(la, lb):
        if x != y and not (_blank(x) and _blank(y)):
            return False
    return True
