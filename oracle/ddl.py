"""ddl.read(sql): independent tokenising reader of the SQL DDL emitted by PyDBML (DESIGN 4.4).

Hand-written scanner over characters; tolerant of whitespace / line layout; written without reference to
the renderer's code.  It never hashes text and only compares characters with ==, so it can run inside a
symbolically executed harness.

Statements produced (tuples):
  ('type',  qname, (item, ...))
  ('table', qname, (coldef, ...), (pk_cols, ...), (fk, ...))
        coldef = (name, type_text, pk, autoinc, unique, not_null, default_text | None)
        fk     = (constraint | None, cols, ref_qname, ref_cols, on_update | None, on_delete | None)
  ('index', unique, name | None, qname, using | None, subjects_text)
  ('alter', qname, fk)
  ('comment', 'TABLE' | 'COLUMN', qname, text)
  ('unknown', raw_text)
qname is a tuple of identifier strings.  Comments (`-- ...` lines) are returned separately.
"""


class DDLError(Exception):
    pass


_PUNCT = '(),;.'


def tokenize(sql):
    """-> (tokens, comments); token = (kind, text, start, end); kinds: id str word punct"""
    toks = []
    comments = []
    i = 0
    n = len(sql)
    while i < n:
        ch = sql[i]
        if ch == ' ' or ch == '\n' or ch == '\t' or ch == '\r':
            i += 1
            continue
        if ch == '-' and i + 1 < n and sql[i + 1] == '-':
            j = i + 2
            while j < n and sql[j] != '\n':
                j += 1
            comments.append((sql[i + 2:j], len(toks)))
            i = j
            continue
        if ch == '"':
            j = i + 1
            while j < n and sql[j] != '"':
                j += 1
            if j >= n:
                raise DDLError('unterminated identifier')
            toks.append(('id', sql[i + 1:j], i, j + 1))
            i = j + 1
            continue
        if ch == "'":
            j = i + 1
            parts = ''
            while True:
                if j >= n:
                    raise DDLError('unterminated literal')
                if sql[j] == "'":
                    if j + 1 < n and sql[j + 1] == "'":
                        parts = parts + "'"
                        j += 2
                        continue
                    break
                parts = parts + sql[j]
                j += 1
            toks.append(('str', parts, i, j + 1))
            i = j + 1
            continue
        if ch == '(' or ch == ')' or ch == ',' or ch == ';' or ch == '.':
            toks.append(('punct', ch, i, i + 1))
            i += 1
            continue
        j = i + 1
        while j < n:
            c2 = sql[j]
            if (c2 == ' ' or c2 == '\n' or c2 == '\t' or c2 == '\r' or c2 == '"' or c2 == "'"
                    or c2 == '(' or c2 == ')' or c2 == ',' or c2 == ';'):
                break
            j += 1
        toks.append(('word', sql[i:j], i, j))
        i = j
    return toks, comments


def _split_statements(toks):
    out = []
    cur = []
    depth = 0
    for t in toks:
        if t[0] == 'punct':
            if t[1] == '(':
                depth += 1
            elif t[1] == ')':
                depth -= 1
            elif t[1] == ';' and depth == 0:
                out.append(cur)
                cur = []
                continue
        cur.append(t)
    if cur:
        out.append(cur)
    return out


def _is(t, kind, text=None):
    return t is not None and t[0] == kind and (text is None or t[1] == text)


class _Cur:
    def __init__(self, toks):
        self.t = toks
        self.i = 0

    def peek(self, k=0):
        return self.t[self.i + k] if self.i + k < len(self.t) else None

    def next(self):
        t = self.peek()
        if t is None:
            raise DDLError('unexpected end of statement')
        self.i += 1
        return t

    def word(self, text):
        t = self.peek()
        if _is(t, 'word', text):
            self.i += 1
            return True
        return False

    def expect_word(self, text):
        if not self.word(text):
            raise DDLError(f'expected {text}')

    def punct(self, text):
        t = self.peek()
        if _is(t, 'punct', text):
            self.i += 1
            return True
        return False

    def expect_punct(self, text):
        if not self.punct(text):
            raise DDLError(f'expected {text!r}')

    def done(self):
        return self.i >= len(self.t)


def _qname(c):
    t = c.next()
    if t[0] != 'id':
        raise DDLError('expected quoted identifier')
    parts = [t[1]]
    while c.punct('.'):
        t = c.next()
        if t[0] != 'id':
            raise DDLError('expected quoted identifier after .')
        parts.append(t[1])
    return tuple(parts)


def _id_list(c):
    c.expect_punct('(')
    names = []
    while True:
        t = c.next()
        if t[0] != 'id':
            raise DDLError('expected identifier in list')
        names.append(t[1])
        if c.punct(','):
            continue
        c.expect_punct(')')
        break
    return tuple(names)


_ACTIONS = (('NO', 'ACTION'), ('RESTRICT',), ('CASCADE',), ('SET', 'NULL'), ('SET', 'DEFAULT'))


def _action(c):
    for act in _ACTIONS:
        ok = True
        for k, w in enumerate(act):
            if not _is(c.peek(k), 'word', w):
                ok = False
                break
        if ok:
            c.i += len(act)
            return ' '.join(act)
    raise DDLError('unknown referential action')


def _fk(c):
    """[CONSTRAINT "n"] FOREIGN KEY (cols) REFERENCES q (cols) [ON UPDATE a] [ON DELETE a]"""
    name = None
    if c.word('CONSTRAINT'):
        t = c.next()
        if t[0] != 'id':
            raise DDLError('constraint name')
        name = t[1]
    c.expect_word('FOREIGN')
    c.expect_word('KEY')
    cols = _id_list(c)
    c.expect_word('REFERENCES')
    ref = _qname(c)
    refcols = _id_list(c)
    upd = dele = None
    while c.word('ON'):
        if c.word('UPDATE'):
            if upd is not None:
                raise DDLError('two ON UPDATE')
            upd = _action(c)
        elif c.word('DELETE'):
            if dele is not None:
                raise DDLError('two ON DELETE')
            dele = _action(c)
        else:
            raise DDLError('ON what?')
    return (name, cols, ref, refcols, upd, dele)


def _split_top_commas(toks):
    out = []
    cur = []
    depth = 0
    for t in toks:
        if t[0] == 'punct':
            if t[1] == '(':
                depth += 1
            elif t[1] == ')':
                depth -= 1
            elif t[1] == ',' and depth == 0:
                out.append(cur)
                cur = []
                continue
        cur.append(t)
    out.append(cur)
    return out


def _coldef(sql, toks):
    if not toks or toks[0][0] != 'id':
        raise DDLError('column definition must start with a quoted name')
    name = toks[0][1]
    rest = toks[1:]
    # default: first depth-0 word DEFAULT
    default = None
    depth = 0
    cut = len(rest)
    for k, t in enumerate(rest):
        if t[0] == 'punct' and t[1] == '(':
            depth += 1
        elif t[0] == 'punct' and t[1] == ')':
            depth -= 1
        elif depth == 0 and _is(t, 'word', 'DEFAULT'):
            cut = k
            after = rest[k + 1:]
            if after:
                default = sql[after[0][2]:after[-1][3]]
            else:
                default = ''
            break
    head = rest[:cut]
    # trailing constraint keywords, in any order
    pk = autoinc = unique = notnull = False
    while head:
        if len(head) >= 2 and _is(head[-2], 'word', 'PRIMARY') and _is(head[-1], 'word', 'KEY'):
            if pk:
                raise DDLError('PRIMARY KEY twice')
            pk = True
            head = head[:-2]
        elif len(head) >= 2 and _is(head[-2], 'word', 'NOT') and _is(head[-1], 'word', 'NULL'):
            if notnull:
                raise DDLError('NOT NULL twice')
            notnull = True
            head = head[:-2]
        elif _is(head[-1], 'word', 'UNIQUE'):
            if unique:
                raise DDLError('UNIQUE twice')
            unique = True
            head = head[:-1]
        elif _is(head[-1], 'word', 'AUTOINCREMENT'):
            if autoinc:
                raise DDLError('AUTOINCREMENT twice')
            autoinc = True
            head = head[:-1]
        else:
            break
    if not head:
        raise DDLError('column without type')
    if head[0][0] == 'id':
        # enum type given by qualified quoted name
        c = _Cur(head)
        q = _qname(c)
        if not c.done():
            raise DDLError('garbage after quoted type')
        type_text = ('q',) + q
    else:
        type_text = sql[head[0][2]:head[-1][3]]
    return (name, type_text, pk, autoinc, unique, notnull, default)


def _create_table(sql, c):
    q = _qname(c)
    c.expect_punct('(')
    # body = tokens up to the matching ')'
    depth = 1
    body = []
    while True:
        t = c.next()
        if t[0] == 'punct' and t[1] == '(':
            depth += 1
        elif t[0] == 'punct' and t[1] == ')':
            depth -= 1
            if depth == 0:
                break
        body.append(t)
    if not c.done():
        raise DDLError('garbage after CREATE TABLE body')
    cols = []
    pks = []
    fks = []
    for part in (_split_top_commas(body) if body else ()):       # an empty body: a table without columns (API-built models)
        if not part:
            raise DDLError('empty table element')
        if _is(part[0], 'word', 'PRIMARY'):
            pc = _Cur(part)
            pc.expect_word('PRIMARY')
            pc.expect_word('KEY')
            # subjects may be expressions: keep text of each top-level comma part
            pc.expect_punct('(')
            inner = part[pc.i:-1]
            if not _is(part[-1], 'punct', ')'):
                raise DDLError('PRIMARY KEY list not closed')
            pks.append(tuple(_subject_text(sql, p) for p in _split_top_commas(inner)))
        elif _is(part[0], 'word', 'CONSTRAINT') or _is(part[0], 'word', 'FOREIGN'):
            pc = _Cur(part)
            fks.append(_fk(pc))
            if not pc.done():
                raise DDLError('garbage after FOREIGN KEY clause')
        else:
            cols.append(_coldef(sql, part))
    return ('table', q, tuple(cols), tuple(pks), tuple(fks))


def _subject_text(sql, toks):
    if not toks:
        raise DDLError('empty subject')
    if len(toks) == 1 and toks[0][0] == 'id':
        return ('col', toks[0][1])
    return ('expr', sql[toks[0][2]:toks[-1][3]])


def _create_type(c):
    q = _qname(c)
    c.expect_word('AS')
    c.expect_word('ENUM')
    c.expect_punct('(')
    items = []
    while True:
        t = c.next()
        if t[0] != 'str':
            raise DDLError('enum item must be a literal')
        items.append(t[1])
        if c.punct(','):
            continue
        c.expect_punct(')')
        break
    if not c.done():
        raise DDLError('garbage after CREATE TYPE')
    return ('type', q, tuple(items))


def _create_index(sql, c, unique):
    name = None
    t = c.peek()
    if t is not None and t[0] == 'id':
        name = t[1]
        c.i += 1
    c.expect_word('ON')
    q = _qname(c)
    using = None
    if c.word('USING'):
        t = c.next()
        if t[0] != 'word':
            raise DDLError('USING what?')
        using = t[1]
    c.expect_punct('(')
    rest = c.t[c.i:]
    if not rest or not _is(rest[-1], 'punct', ')'):
        raise DDLError('index subjects not closed')
    inner = rest[:-1]
    # the closing paren must match the opening one
    depth = 0
    for t in inner:
        if t[0] == 'punct' and t[1] == '(':
            depth += 1
        elif t[0] == 'punct' and t[1] == ')':
            depth -= 1
            if depth < 0:
                raise DDLError('garbage after index subjects')
    subjects = tuple(_subject_text(sql, p) for p in _split_top_commas(inner))
    return ('index', unique, name, q, using, subjects)


def _statement(sql, toks):
    c = _Cur(toks)
    if c.word('CREATE'):
        if c.word('TYPE'):
            return _create_type(c)
        if c.word('TABLE'):
            return _create_table(sql, c)
        if c.word('UNIQUE'):
            c.expect_word('INDEX')
            return _create_index(sql, c, True)
        if c.word('INDEX'):
            return _create_index(sql, c, False)
        raise DDLError('CREATE what?')
    if c.word('ALTER'):
        c.expect_word('TABLE')
        q = _qname(c)
        c.expect_word('ADD')
        fk = _fk(c)
        if not c.done():
            raise DDLError('garbage after ALTER TABLE')
        return ('alter', q, fk)
    if c.word('COMMENT'):
        c.expect_word('ON')
        t = c.next()
        if t[0] != 'word' or not (t[1] == 'TABLE' or t[1] == 'COLUMN'):
            raise DDLError('COMMENT ON what?')
        q = _qname(c)
        c.expect_word('IS')
        lit = c.next()
        if lit[0] != 'str':
            raise DDLError('comment text must be a literal')
        if not c.done():
            raise DDLError('garbage after COMMENT ON')
        return ('comment', t[1], q, lit[1])
    raise DDLError('unknown statement')


def read(sql):
    """-> (statements tuple, comments tuple).  Raises DDLError when the text is not the expected DDL."""
    toks, comments = tokenize(sql)
    stmts = []
    for st in _split_statements(toks):
        if st:
            stmts.append(_statement(sql, st))
    return tuple(stmts), tuple(c for c, _ in comments)


def read_or_none(sql):
    try:
        return read(sql)
    except DDLError:
        return None
