"""content(db): plain-data view of a Database (DESIGN 4.1).

Written from the public attribute list of the model classes, independent of renderer and parser code.
Never hashes or formats values, so symbolic strings stay symbolic; results compare with == .
"""


def _kind(v):
    # bool before int: bool is a subclass of int
    if v is None:
        return ('none',)
    if isinstance(v, bool):
        return ('bool', v)
    if isinstance(v, int):
        return ('int', v)
    if isinstance(v, float):
        return ('float', v)
    if isinstance(v, str):
        return ('str', v)
    cls = type(v).__name__
    if cls == 'Expression':
        return ('expr', v.text)
    return ('other', cls)


def note_text(n):
    if n is None:
        return ''
    if isinstance(n, str):
        return n
    return n.text


def _type(t):
    if isinstance(t, str):
        return ('str', t)
    if type(t).__name__ == 'Enum':
        return ('enum', t.schema, t.name)
    return ('other', type(t).__name__)


def _props(d):
    return tuple((k, v) for k, v in (d or {}).items())


def column(c, comments=True):
    return (
        'col', c.name, _type(c.type), bool(c.pk), bool(c.unique), bool(c.not_null), bool(c.autoinc),
        _kind(c.default), note_text(c.note), (c.comment if comments else None), _props(c.properties),
    )


def _subject(s):
    cls = type(s).__name__
    if cls == 'Column':
        return ('col', s.name)
    if cls == 'Expression':
        return ('expr', s.text)
    return ('raw', s)


def index(i, comments=True):
    return (
        'idx', tuple(_subject(s) for s in i.subjects), i.name, bool(i.unique), i.type, bool(i.pk),
        note_text(i.note), (i.comment if comments else None),
    )


def table(t, comments=True):
    return (
        'table', t.schema, t.name, t.alias, t.header_color, note_text(t.note),
        (t.comment if comments else None), _props(t.properties),
        tuple(column(c, comments) for c in t.columns),
        tuple(index(i, comments) for i in t.indexes),
    )


def enum(e, comments=True):
    return (
        'enum', e.schema, e.name, (e.comment if comments else None),
        tuple(('item', i.name, note_text(i.note), (i.comment if comments else None)) for i in e.items),
    )


def _endpoint(cols):
    return tuple((c.table.schema if c.table is not None else None,
                  c.table.name if c.table is not None else None, c.name) for c in cols)


def reference(r, comments=True, inline=True):
    return (
        'ref', r.type, (bool(r.inline) if inline else None), r.name, (r.comment if comments else None),
        r.on_update, r.on_delete, _endpoint(r.col1), _endpoint(r.col2),
    )


def group(g, comments=True):
    return (
        'group', g.name, tuple((t.schema, t.name) for t in g.items), (g.comment if comments else None),
        note_text(g.note), g.color,
    )


def sticky(s):
    return ('sticky', s.name, s.text)


def project(p, comments=True):
    if p is None:
        return None
    return ('project', p.name, _props(p.items), note_text(p.note), (p.comment if comments else None))


def content(db, comments=True, inline=True):
    return (
        project(db.project, comments),
        tuple(enum(e, comments) for e in db.enums),
        tuple(table(t, comments) for t in db.tables),
        tuple(reference(r, comments, inline) for r in db.refs),
        tuple(group(g, comments) for g in db.table_groups),
        tuple(sticky(s) for s in db.sticky_notes),
    )


def content_without_comments(db):
    return content(db, comments=False)


def first_difference(a, b, path='content'):
    """Concrete, human-readable location of the first difference between two content trees."""
    if type(a) is not type(b) and not (isinstance(a, (tuple, list)) and isinstance(b, (tuple, list))):
        return f'{path}: {a!r} != {b!r}'
    if isinstance(a, (tuple, list)):
        if len(a) != len(b):
            return f'{path}: length {len(a)} != {len(b)}: {a!r} != {b!r}'
        for i, (x, y) in enumerate(zip(a, b)):
            d = first_difference(x, y, f'{path}[{i}]')
            if d:
                return d
        return ''
    return '' if a == b else f'{path}: {a!r} != {b!r}'
