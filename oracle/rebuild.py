"""rebuild(content): construct a FRESH Database through the public constructors from the plain content tuple
(DESIGN C10).  Oracle code: it never copies model objects."""


def rebuild(c, **dbkw):
    from pydbml import Database
    from pydbml.classes import Table, Column, Enum, EnumItem, Reference, TableGroup, Project, StickyNote, Index, Expression, Note
    proj, enums, tables, refs, groups, stickies = c
    db = Database(**dbkw)
    emap = {}
    for (_, schema, name, comment, items) in enums:
        e = Enum(name, [EnumItem(n, note=(nt or None), comment=cm) for (_, n, nt, cm) in items], schema=schema, comment=comment)
        emap[(schema, name)] = e
        db.add(e)
    tmap = {}
    for (_, schema, name, alias, color, note, comment, props, cols, idxs) in tables:
        t = Table(name, schema=schema, alias=alias, note=(note or None), header_color=color, comment=comment, properties=dict(props))
        for (_, cn, typ, pk, un, nn, ai, dflt, cnote, ccomment, cprops) in cols:
            ty = typ[1] if typ[0] == 'str' else emap[(typ[1], typ[2])]
            if dflt[0] == 'none':
                dv = None
            elif dflt[0] == 'expr':
                dv = Expression(dflt[1])
            else:
                dv = dflt[1]
            t.add_column(Column(cn, ty, unique=un, not_null=nn, pk=pk, autoinc=ai, default=dv, note=(cnote or None), comment=ccomment,
                                properties=dict(cprops)))
        for (_, subjects, iname, iun, ityp, ipk, inote, icomment) in idxs:
            sj = []
            for s in subjects:
                if s[0] == 'col':
                    sj.append(t[s[1]])
                elif s[0] == 'expr':
                    sj.append(Expression(s[1]))
                else:
                    sj.append(s[1])
            t.add_index(Index(sj, name=iname, unique=iun, type=ityp, pk=ipk, note=(inote or None), comment=icomment))
        tmap[(schema, name)] = t
        db.add(t)
    for (_, name, items, comment, note, color) in groups:
        db.add(TableGroup(name, [tmap[k] for k in items], comment=comment, note=(Note(note) if note else None), color=color))
    for (_, name, text) in stickies:
        db.add(StickyNote(name, text))
    if proj is not None:
        db.add(Project(proj[1], items=dict(proj[2]), note=(proj[3] or None), comment=proj[4]))
    for (_, typ, inline, name, comment, upd, dele, e1, e2) in refs:
        c1 = [tmap[(s, t)][cn] for (s, t, cn) in e1]
        c2 = [tmap[(s, t)][cn] for (s, t, cn) in e2]
        db.add(Reference(typ, c1, c2, name=name, comment=comment, on_update=upd, on_delete=dele, inline=bool(inline)))
    return db
