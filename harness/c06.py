"""C06 - Rule-breaking documents are rejected with the error belonging to the rule."""
from harness.common import Harness, IntRange, Cls, Enum, hole_args, text_of, reached, region_active
from harness import docs

ASSUMPTIONS = [
    'exactly one rule violation per document; the two clashing names are independent selectors / holes so the solver finds the '
    'equality itself; postconditions are IFF: the rule\'s error is raised exactly when the rule is broken, otherwise a database '
    'with both declarations is returned; names over small enumerated alphabets where they are hashed',
]

SCH = ['', 's.', 'public.']            # written schema prefix
SCHV = ['public', 's', 'public']
NAMES = ['a', 'b']
ALIAS = [None, 'x', 'y', 'public.a', 's.b', 'a']
FILLER = ['', 'Enum e {\n  v\n}\n', 'Table zz {\n  q int\n}\n']


def _exc():
    import pydbml.exceptions as ex
    return ex


def dup_tables(fix=None):
    args = [('s1', IntRange(0, 2)), ('s2', IntRange(0, 2)), ('n2', IntRange(0, 1)), ('a1', IntRange(0, 5)), ('a2', IntRange(0, 5)),
            ('mid', IntRange(0, 2)), ('quoted', 'bool'), ('same', 'bool')]          # same: the second declaration repeats the first one's body

    def build(a):
        def tbl(s, n, al, col, q):
            nm = ('"' + n + '"') if q else n
            return 'Table ' + SCH[s] + nm + ((' as "' + al + '"') if al else '') + ' {\n  ' + col + ' int\n}\n'
        doc = tbl(a['s1'], 'a', ALIAS[a['a1']], 'c1', False) + FILLER[a['mid']] + tbl(a['s2'], NAMES[a['n2']], ALIAS[a['a2']], 'c1' if a['same'] else 'c2', a['quoted'])
        full1 = SCHV[a['s1']] + '.a'
        full2 = SCHV[a['s2']] + '.' + NAMES[a['n2']]
        keys = [full1] + ([ALIAS[a['a1']]] if ALIAS[a['a1']] else [])
        if a['mid'] == 2:
            keys.append('public.zz')
        clash = full2 in keys or (ALIAS[a['a2']] is not None and ALIAS[a['a2']] in keys)
        return doc, clash, full1, full2

    def body(a):
        ex = _exc()
        doc, clash, full1, full2 = build(a)
        try:
            db = docs.parse(doc)
        except ex.DatabaseValidationError:
            reached()
            return '' if clash else 'a document without a name clash was rejected'
        except Exception:
            return 'rejected with an error that does not belong to the rule'
        reached()
        if clash:
            return 'two tables with the same name / a reused alias were accepted'
        names = [t.schema + '.' + t.name for t in db.tables]
        if full1 not in names or full2 not in names:
            return 'a declared table is missing'
        return ''

    return Harness(body, args, describe=lambda a: {'document': build(a)[0], 'clash_expected': build(a)[1]}, fixed=fix,
                   bounds={'names': NAMES, 'aliases': ALIAS})


def dup_enums_groups(kind, fix=None):
    """kind: enum | group"""
    args = [('s1', IntRange(0, 2)), ('s2', IntRange(0, 2)), ('n2', IntRange(0, 1)), ('mid', IntRange(0, 2)), ('quoted', 'bool'), ('same', 'bool')]

    def build(a):
        n2 = NAMES[a['n2']]
        nm2 = ('"' + n2 + '"') if a['quoted'] else n2
        if kind == 'enum':
            doc = ('Enum ' + SCH[a['s1']] + 'a {\n  v\n}\n' + FILLER[a['mid']].replace('Enum e', 'Enum other') + 'Enum ' + SCH[a['s2']] + nm2 + (' {\n  v\n}\n' if a['same'] else ' {\n  w\n  v\n}\n'))
            clash = SCHV[a['s1']] == SCHV[a['s2']] and n2 == 'a'
        else:
            doc = ('Table t {\n  c int\n}\nTableGroup a {\n  t\n}\n' + FILLER[a['mid']] + 'TableGroup ' + nm2 + (' {\n  t\n}\n' if a['same'] else ' {\n}\n'))
            clash = n2 == 'a'
        return doc, clash

    def body(a):
        ex = _exc()
        doc, clash = build(a)
        try:
            db = docs.parse(doc)
        except ex.DatabaseValidationError:
            reached()
            return '' if clash else 'a document without a clash was rejected'
        except Exception:
            return 'rejected with an error that does not belong to the rule'
        reached()
        if clash:
            return 'duplicate ' + kind + ' was accepted'
        n = len(db.enums) if kind == 'enum' else len(db.table_groups)
        return '' if n >= 2 else 'a declared element is missing'

    return Harness(body, args, describe=lambda a: {'document': build(a)[0], 'clash_expected': build(a)[1]}, fixed=fix, bounds={'kind': kind})


T_ADDR = ['t', 'public.t', 'T', '"t"']       # table public.t alias T
U_ADDR = ['s.u', 'U', '"s"."u"', 's.u']      # table s.u alias U


def group_twice(fix=None):
    args = [('i1', IntRange(0, 3)), ('i2', IntRange(0, 3)), ('which', 'bool'), ('same', 'bool')]

    def build(a):
        A = T_ADDR if a['which'] else U_ADDR
        B = A if a['same'] else (U_ADDR if a['which'] else T_ADDR)
        doc = ('Table t as T {\n  c int\n}\nTable s.u as U {\n  c int\n}\nTableGroup g {\n  ' + A[a['i1']] + '\n  ' + B[a['i2']] + '\n}\n')
        return doc

    def body(a):
        ex = _exc()
        doc = build(a)
        try:
            db = docs.parse(doc)
        except ex.ValidationError:
            reached()
            return '' if a['same'] else 'a group listing two different tables was rejected'
        except Exception:
            return 'rejected with an error that does not belong to the rule'
        reached()
        if a['same']:
            return 'a table listed twice in one group was accepted'
        return '' if len(db.table_groups[0].items) == 2 else 'group items missing'

    return Harness(body, args, describe=lambda a: {'document': build(a)}, fixed=fix, bounds={})


FORMS = ['inline', 'short', 'block']
ACT = ['', 'cascade', 'CASCADE', 'set null']


def dup_refs(f1, f2, fix=None):
    """two references a.x (op) b.y written in forms f1, f2; fields of the second copy vary; duplicate iff all fields equal"""
    args = [('op2', IntRange(0, 2)), ('named2', 'bool'), ('act1', IntRange(0, 3)), ('act2', IntRange(0, 3)), ('addr', IntRange(0, 2)),
            ('col2', 'bool')]
    OPS = ['>', '<', '-']

    def build(a):
        A = ['a', 'public.a', 'A'][a['addr']]
        B = ['s.b', 'B', 's.b'][a['addr']]
        ycol = 'y2' if a['col2'] else 'y'

        def ref(form, op, named, act, addr_a, addr_b, y):
            st = (' [delete: ' + ACT[act] + ']') if ACT[act] else ''
            nm = ' r1' if named else ''
            if form == 'short':
                return 'Ref' + nm + ': ' + addr_a + '.x ' + op + ' ' + addr_b + '.' + y + st + '\n'
            return 'Ref' + nm + ' {\n  ' + addr_a + '.x ' + op + ' ' + addr_b + '.' + y + st + '\n}\n'
        inl = []
        if f1 == 'inline':
            inl.append('ref: > s.b.y')
        if f2 == 'inline':
            inl.append('ref: ' + OPS[a['op2']] + ' ' + B + '.' + ycol)
        doc = 'Table a as A {\n  x int' + ((' [' + ', '.join(inl) + ']') if inl else '') + '\n}\nTable s.b as B {\n  y int\n  y2 int\n}\n'
        if f1 != 'inline':
            doc += ref(f1, '>', True if f2 != 'inline' else False, a['act1'] if f2 != 'inline' else 0, 'a', 's.b', 'y')
        if f2 != 'inline':
            named2 = a['named2'] if f1 != 'inline' else False
            doc += ref(f2, OPS[a['op2']], named2, a['act2'] if f1 != 'inline' else 0, A, B, ycol)
        # fields of copy 1 / copy 2
        n1 = 'r1' if (f1 != 'inline' and f2 != 'inline') else None
        n2 = 'r1' if (f2 != 'inline' and f1 != 'inline' and a['named2']) else None
        d1 = ACT[a['act1']].lower() if (f1 != 'inline' and f2 != 'inline') else ''
        d2 = ACT[a['act2']].lower() if (f1 != 'inline' and f2 != 'inline') else ''
        dup = (OPS[a['op2']] == '>') and (n1 == n2) and (d1 == d2) and not a['col2']
        return doc, dup

    def body(a):
        ex = _exc()
        doc, dup = build(a)
        try:
            db = docs.parse(doc)
        except ex.DatabaseValidationError:
            reached()
            return '' if dup else 'two different references were rejected as duplicates'
        except Exception:
            return 'rejected with an error that does not belong to the rule'
        reached()
        if dup:
            return 'an identical reference written twice was accepted'
        return '' if len(db.refs) == 2 else 'a declared reference is missing'

    return Harness(body, args, describe=lambda a: {'document': build(a)[0], 'duplicate_expected': build(a)[1]}, fixed=fix,
                   bounds={'forms': [f1, f2]})


def empty_table(fix=None):
    args = [('body', IntRange(0, 3)), ('pos', IntRange(0, 2)), ('schema', 'bool')]
    BODIES = ['', "  Note: 'n'\n", '  // only a comment\n', "  Note {\n    'n'\n  }\n"]

    def build(a):
        t = 'Table ' + ('s.' if a['schema'] else '') + 'empty {\n' + BODIES[a['body']] + '}\n'
        ok = 'Table full {\n  c int\n}\n'
        return [t + ok, ok + t, ok + t + 'Enum e {\n  v\n}\n'][a['pos']]

    def body(a):
        doc = build(a)
        try:
            docs.parse(doc)
        except SyntaxError:
            reached()
            return ''
        except Exception as e:
            import pyparsing
            reached()
            # a pyparsing wrapper around the SyntaxError is not the rule's error either
            return 'column-less table rejected with ' + type(e).__name__ + ' instead of SyntaxError'
        return 'a table without columns was accepted'

    return Harness(body, args, describe=lambda a: {'document': build(a)}, fixed=fix, bounds={})


WORD = Cls('WORD')
TBL = Enum('tuU_')


def dangling(site, K=1, fix=None):
    """a reference / index / group names a table or column through a hole: not-found error IFF it differs from every declared name"""
    if site.endswith('_table'):
        args = hole_args('n', 1, TBL)
    else:
        args = hole_args('n', K, WORD)
    args = args + [('form', IntRange(0, 2 if site in ('ref_right_table', 'ref_left_table', 'index_column') else 1))]

    def build(a):
        n = text_of(a, 'n', 1 if site.endswith('_table') else K)
        base = 'Table t as U {\n  id int\n  k int{INL}\n{IDX}}\nTable u {\n  id int\n}\n'
        inl = idx = tail = ''
        if site == 'ref_right_table':
            exists = n == 't' or n == 'u' or n == 'U'
            if a['form'] == 0:
                inl = ' [ref: > ' + n + '.id]'
            elif a['form'] == 1:
                tail = 'Ref: u.id > ' + n + '.id\n'
            else:
                # schema-qualified: no table lives in schema `hr`, whatever its bare name
                tail = 'Ref: u.id > hr.' + n + '.id\n'
                exists = None if (n == 'U' and region_active('c06_alias_ignores_schema')) else False
            kind = 'table'
        elif site == 'ref_left_table':
            exists = n == 't' or n == 'u' or n == 'U'
            if a['form'] == 2:
                tail = 'Ref: hr.' + n + '.id < ' + n + '.id\n'      # same bare name on both sides, left one in a schema without tables
                exists = None if ((n == 'U' and region_active('c06_alias_ignores_schema')) or not exists) else False
            else:
                tail = ('Ref: ' + n + '.id < u.id\n') if a['form'] == 0 else ('Ref {\n  ' + n + '.id - u.id\n}\n')
            kind = 'table'
        elif site == 'group_table':
            exists = n == 't' or n == 'u' or n == 'U'
            tail = 'TableGroup g {\n  u\n  ' + n + '\n}\n' if a['form'] == 0 else 'TableGroup g {\n  public.' + n + '\n}\n'
            if a['form'] == 1:
                exists = n == 't' or n == 'u'      # an alias cannot be schema-qualified
                if n == 'U' and region_active('c06_alias_ignores_schema'):
                    exists = None
            if a['form'] == 0 and n == 'u':
                exists = None                          # listed twice: another rule
            kind = 'table'
        elif site == 'ref_right_column':
            exists = n == 'id' or n == 'k'
            if a['form'] == 0:
                inl = ' [ref: > t.' + n + ']'
            else:
                tail = 'Ref: u.id > U.' + n + '\n'
            kind = 'column'
        elif site == 'ref_left_column':
            exists = n == 'id'
            tail = ('Ref: u.' + n + ' > t.id\n') if a['form'] == 0 else ('Ref {\n  u.(' + n + ') <> t.(id)\n}\n')
            kind = 'column'
        else:  # index_column
            exists = n == 'id' or n == 'k'
            # single subject, composite with another column, composite with a backtick expression
            idx = '  indexes {\n    ' + (n if a['form'] == 0 else ('(id, ' + n + ')' if a['form'] == 1 else '(`id + 1`, ' + n + ') [unique]')) + '\n  }\n'
            kind = 'column'
        doc = base.replace('{INL}', inl).replace('{IDX}', idx) + tail
        return doc, exists, kind

    def body(a):
        ex = _exc()
        doc, exists, kind = build(a)
        if exists is None:
            return ''
        want = ex.TableNotFoundError if kind == 'table' else ex.ColumnNotFoundError
        try:
            db = docs.parse(doc)
        except want:
            reached()
            return '' if not exists else 'an existing ' + kind + ' was reported as not found'
        except Exception as e:
            if site == 'index_column' and not exists and type(e).__name__ == 'ParseSyntaxException':
                pass
            return 'rejected with an error that does not belong to the rule'
        reached()
        if not exists:
            return 'a dangling ' + kind + ' name was accepted (dropped or bound to something else)'
        return ''

    return Harness(body, args, describe=lambda a: {'document': build(a)[0], 'exists': build(a)[1]}, fixed=fix, bounds={'site': site, 'K': K})


def instances(tier):
    out = []

    def add(name, factory, params, timeout=280, **kw):
        d = {'name': name, 'factory': factory, 'params': params, 'timeout': timeout, 'native_limit': 200}
        d.update(kw)
        out.append(d)

    quick = tier == 'quick'
    T1 = 280 if quick else 3000
    for mid in range(3):
        for q in (False, True):
            if quick and (mid, q) not in ((0, False), (1, True), (2, False)):
                continue
            for s1 in range(3):
                if quick and s1 == 2:
                    continue
                add(f"dup_tables/mid{mid}/{'q' if q else 'b'}/s{s1}", 'dup_tables', {'fix': {'mid': mid, 'quoted': q, 's1': s1, 'same': False}}, T1)
    add('dup_tables/same_body', 'dup_tables', {'fix': {'mid': 0, 'a1': 0, 'a2': 0}}, T1)
    for kind in ('enum', 'group'):
        for mid in range(3):
            if quick and mid == 1:
                continue
            add(f'dup_{kind}/mid{mid}', 'dup_enums_groups', {'kind': kind, 'fix': {'mid': mid}}, T1)
    add('group_twice', 'group_twice', {}, T1)
    for f1 in FORMS:
        for f2 in FORMS:
            if quick and (f1, f2) in (('short', 'short'), ('block', 'block')):
                continue
            for addr in range(3):
                if quick and addr != (FORMS.index(f1) + FORMS.index(f2)) % 3:
                    continue
                add(f'dup_refs/{f1}-{f2}/addr{addr}', 'dup_refs', {'f1': f1, 'f2': f2, 'fix': {'addr': addr}}, T1)
    add('empty_table', 'empty_table', {}, T1)
    for site in ('ref_right_table', 'ref_left_table', 'group_table', 'ref_right_column', 'ref_left_column', 'index_column'):
        add(f'dangling/{site}', 'dangling', {'site': site, 'K': 2}, T1)
    return out
