"""C01 - Parsing is faithful: the Database holds exactly what the document declares.

Every scenario function builds BOTH the DBML text (in a chosen surface spelling) and the expected content tuple
from the same (symbolic) arguments, without looking at the parser: the expected-model oracle of DESIGN 4.3.
"""
from harness.common import Harness, Cls, IntRange, hole_args, text_of, reached, region_active
from harness import docs
from oracle.content import content, first_difference
from oracle.norm import norm

THOROUGH_STRIDE = 6      # the registered thorough tier runs every 6th instance of each family of the full cross product (vp_check.py --tier full runs all)

ASSUMPTIONS = [
    'documents of <= 3 tables / 3 columns / 2 indexes / 3 refs; <= 2 sites symbolic per instance (K characters each), the other '
    'positions carry fixed representative text; table / schema / alias names are concrete (hashed by the database)',
    'surface selectors (quoting, keyword case, one-line vs multi-line settings, settings order, body element order, Ref form, '
    'addressing by schema.name / bare / alias) are fanned out by the driver or kept symbolic (<= 3 per instance)',
]

BARE = Cls('WORD')
QNAME = Cls('NARROW', minus='"')
# note texts: ASCII blanks only (whether U+00A0 / U+2028 count as indentation is not stated by the property; C13 checks idempotence there)
TEXT = Cls('ASCII', plus='é')
KEYS = __import__('harness.common', fromlist=['Enum']).Enum('aZ_9')   # project item keys are dict keys (hashed): enumerated
EXPR = Cls('ASCII', minus='`', plus='é')


def _case(word, mode):
    if mode == 'lower':
        return word.lower()
    if mode == 'upper':
        return word.upper()
    if mode == 'mixed':
        return ''.join(ch.upper() if i % 2 == 0 else ch.lower() for i, ch in enumerate(word))
    return word


def _name(n, quoted):
    return docs.qname(n) if quoted else n


def _known_name_issue(n):
    """(was: quoted names containing a backslash were altered by the tokenizer; repaired in /repo, nothing is excluded any more)"""
    return False


def _expect_db(project=None, enums=(), tables=(), refs=(), groups=(), stickies=()):
    return (project, tuple(enums), tuple(tables), tuple(refs), tuple(groups), tuple(stickies))


def _col(name, typ=('str', 'int'), pk=False, unique=False, nn=False, ai=False, default=('none',), note='', comment=None, props=()):
    return ('col', name, typ, pk, unique, nn, ai, default, note, comment, props)


def _table(name, cols, schema='public', alias=None, color=None, note='', comment=None, props=(), idx=()):
    return ('table', schema, name, alias, color, note, comment, props, tuple(cols), tuple(idx))


def _compare(db, expected):
    got = content(db)
    if got == expected:
        return ''
    return 'parsed database differs from what the document declares'


def _diff_text(a_doc, expected, **kw):
    try:
        db = docs.parse(a_doc, **kw)
    except Exception as e:
        return f'rejected: {type(e).__name__}: {e}'
    return first_difference(content(db), expected)


# ---- column ---------------------------------------------------------------------------------------
TYPE_KINDS = ['word', 'args', 'array', 'dotted', 'quoted', 'enum', 'enum_q', 'enum_elsewhere']
DEFAULT_KINDS = ['none', 'int', 'float', 'true', 'false', 'null', 'str1', 'str2', 'str3', 'expr']
ORDERS = ['id', 'rev', 'rot']


def column(tkind, dkind, order='id', layout='one', case='same', quoted=False, K=2, legacy=False, fix=None, props_on=False):
    """one column line; symbolic: name hole, note/default text hole, which settings are present"""
    ndom = QNAME if quoted else BARE
    args = ([('s_pk', IntRange(0, 2)), ('s_nn', IntRange(0, 2)), ('s_un', 'bool'), ('s_ai', 'bool'), ('s_note', 'bool')]
            + hole_args('n', K, ndom) + hole_args('t', K, TEXT if dkind != 'expr' else EXPR))

    def build(a):
        name = text_of(a, 'n', K)
        txt = text_of(a, 't', K)
        pre = ''
        if tkind == 'word':
            tsrc, texp = 'vc' + name[:0] + 'har', ('str', 'vchar')
        elif tkind == 'args':
            tsrc, texp = 'decimal(10, 2)', ('str', 'decimal(10, 2)')
        elif tkind == 'array':
            tsrc, texp = 'int[]', ('str', 'int[]')
        elif tkind == 'dotted':
            tsrc, texp = 'myschema.mytype', ('str', 'myschema.mytype')
        elif tkind == 'quoted':
            tsrc, texp = '"character varying"', ('str', 'character varying')
        elif tkind == 'enum_elsewhere':
            # an enum of that name exists only in another schema: the bare type is plain text
            pre, tsrc, texp = 'Enum s.status {\n  on\n}\n', 'status', ('str', 'status')
        elif tkind == 'enum':
            pre, tsrc, texp = 'Enum status {\n  on\n}\n', 'status', ('enum', 'public', 'status')
        else:
            pre, tsrc, texp = 'Enum s.status {\n  on\n}\n', 's.status', ('enum', 's', 'status')
        settings = []
        pk = a['s_pk'] != 0
        if a['s_pk'] == 1:
            settings.append(_case('pk', case))
        elif a['s_pk'] == 2:
            settings.append(_case('primary key', case))
        nn = a['s_nn'] == 1
        if a['s_nn'] == 1:
            settings.append(_case('not null', case))
        elif a['s_nn'] == 2:
            settings.append(_case('null', case))
        if a['s_un']:
            settings.append(_case('unique', case))
        if a['s_ai']:
            settings.append(_case('increment', case))
        note = ''
        if a['s_note']:
            settings.append(_case('note', case) + ': ' + docs.q_single(txt))
            note = norm(txt)
        d = _case('default', case) + ': '
        if dkind == 'none':
            dexp = ('none',)
        elif dkind == 'int':
            settings.append(d + '17')
            dexp = ('int', 17)
        elif dkind == 'float':
            settings.append(d + '3.25')
            dexp = ('float', 3.25)
        elif dkind == 'true':
            settings.append(d + _case('true', case))
            dexp = ('bool', True)
        elif dkind == 'false':
            settings.append(d + _case('false', case))
            dexp = ('bool', False)
        elif dkind == 'null':
            settings.append(d + _case('null', case))
            dexp = ('str', 'NULL')
        elif dkind in ('str1', 'str2', 'str3'):
            settings.append(d + docs.quote(txt, {'str1': 'single', 'str2': 'double', 'str3': 'triple'}[dkind]))
            dexp = ('str', txt)
        else:
            settings.append(d + '`' + txt + '`')
            dexp = ('expr', txt)
        if order == 'rev':
            settings = settings[::-1]
        elif order == 'rot' and len(settings) > 1:
            settings = settings[1:] + settings[:1]
        unique = a['s_un']
        leg = ''
        if legacy:
            leg = ' ' + _case('unique', case) + ' ' + _case('pk', case)
            unique = True
            pk = True
        if settings:
            sep = ',\n      ' if layout == 'multi' else ', '
            sett = (' [\n      ' + sep.join(settings) + '\n    ]') if layout == 'multi' else (' [' + sep.join(settings) + ']')
        else:
            sett = ''
        doc = pre + _case('Table', case) + ' t {\n  ' + _name(name, quoted) + ' ' + tsrc + leg + sett + '\n  other int\n}\n'
        enums = []
        if tkind == 'enum':
            enums = [('enum', 'public', 'status', None, (('item', 'on', '', None),))]
        elif tkind in ('enum_q', 'enum_elsewhere'):
            enums = [('enum', 's', 'status', None, (('item', 'on', '', None),))]
        exp = _expect_db(enums=enums, tables=[_table('t', [_col(name, texp, pk, unique, nn, a['s_ai'], dexp, note), _col('other')])])
        return doc, exp, name

    def body(a):
        doc, exp, name = build(a)
        if quoted and _known_name_issue(name):
            return ''
        try:
            # enabling arbitrary properties changes nothing for a document without properties
            db = docs.parse(doc, **({'allow_properties': True} if props_on else {}))
        except Exception:
            return 'well-formed document rejected'
        reached()
        return _compare(db, exp)

    def describe(a):
        doc, exp, _ = build(a)
        return {'document': doc, 'difference': _diff_text(doc, exp)}

    h = Harness(body, args, describe=describe, fixed=fix,
                bounds={'props_on': props_on, 'type': tkind, 'default': dkind, 'order': order, 'layout': layout, 'case': case, 'quoted': quoted,
                        'legacy': legacy, 'K': K})
    h.build = lambda a: build(dict(a, **(fix or {})))[:2]
    return h


# ---- table header and body ------------------------------------------------------------------------
BODY_ORDERS = ['cni', 'cin', 'nci', 'nic', 'icn', 'inc']   # c = columns, n = note, i = indexes


def table(body_order, note_form, case='same', K=2, fix=None):
    """header (schema / alias / headercolor / settings note: symbolic presence), body element order, blank lines, indentation"""
    args = ([('h_schema', 'bool'), ('h_alias', 'bool'), ('h_color', 'bool'), ('h_note', 'bool'), ('b_note', 'bool'), ('blank', 'bool'),
             ('hs_multi', 'bool')]
            + hole_args('t', K, TEXT) + hole_args('x', 1, Cls('HEX')) + hole_args('w', 1, Cls('WS', minus='\r')))

    def build(a):
        txt = text_of(a, 't', K)
        hx = 'a' + text_of(a, 'x', 1) + '9'
        ws = ' ' + text_of(a, 'w', 1)
        head = _case('Table', case) + ' ' + ('"my schema".' if a['h_schema'] else '') + 'users' + (' ' + _case('as', 'same') + ' U' if a['h_alias'] else '')
        hs = []
        if a['h_color']:
            hs.append(_case('headercolor', case) + ': #' + hx)
        if a['h_note']:
            hs.append(_case('note', case) + ": 'settings note'")
        if hs:
            head += (' [\n    ' + ',\n    '.join(hs) + '\n  ]') if a['hs_multi'] else (' [' + ', '.join(hs) + ']')
        cols = ws + 'id int\n' + ('\n' if a['blank'] else '') + ws + '  name text\n'
        if note_form == 'inline':
            nt = '  ' + _case('Note', case) + ': ' + docs.q_single(txt) + '\n'
        elif note_form == 'block':
            nt = '  ' + _case('Note', case) + ' {\n' + ws + docs.q_single(txt) + '\n  }\n'
        else:
            nt = '  ' + _case('note', case) + ': ' + docs.q_triple('\n    ' + txt + 'x\n  \n    second line\n  ') + '\n'
        idx = '  ' + _case('indexes', case) + ' {\n' + ws + '(id, name) [' + _case('unique', case) + ']\n' + ('\n' if a['blank'] else '') + '    name\n  }\n'
        parts = {'c': cols, 'n': nt if a['b_note'] else '', 'i': idx}
        bodytxt = ''.join(parts[k] for k in body_order)
        doc = ('\n' if a['blank'] else '') + head + ' {\n' + bodytxt + '}\n'
        if a['b_note']:
            note = norm(txt) if note_form != 'triple' else norm('\n    ' + txt + 'x\n  \n    second line\n  ')      # interior line of 2 blanks, indentation 4
        elif a['h_note']:
            note = 'settings note'
        else:
            note = ''
        exp = _expect_db(tables=[_table(
            'users', [_col('id'), _col('name', ('str', 'text'))], schema='my schema' if a['h_schema'] else 'public',
            alias='U' if a['h_alias'] else None, color=('#' + hx) if a['h_color'] else None, note=note,
            idx=[('idx', (('col', 'id'), ('col', 'name')), None, True, None, False, '', None),
                 ('idx', (('col', 'name'),), None, False, None, False, '', None)])])
        return doc, exp

    def body(a):
        doc, exp = build(a)
        try:
            db = docs.parse(doc)
        except Exception:
            return 'well-formed document rejected'
        reached()
        return _compare(db, exp)

    def describe(a):
        doc, exp = build(a)
        return {'document': doc, 'difference': _diff_text(doc, exp)}

    h = Harness(body, args, describe=describe, fixed=fix, bounds={'body_order': body_order, 'note_form': note_form, 'case': case, 'K': K})
    h.build = lambda a: build(dict(a, **(fix or {})))[:2]
    return h


# ---- index ----------------------------------------------------------------------------------------
IDX_TYPES = ['brin', 'btree', 'gin', 'gist', 'hash', 'spgist']


def index(shape, itype, layout='one', case='same', K=2, fix=None):
    """shape: single | quoted | composite | expr | mixed ; settings presence symbolic; name and note texts are holes"""
    args = [('s_un', 'bool'), ('s_pk', 'bool'), ('s_name', 'bool'), ('s_note', 'bool'), ('s_type', 'bool'), ('rev', 'bool')] + \
        hole_args('t', K, TEXT) + hole_args('e', K, EXPR)

    def build(a):
        txt = text_of(a, 't', K)
        ex = text_of(a, 'e', K)
        if shape == 'single':
            subj, esub = 'a', (('col', 'a'),)
        elif shape == 'quoted':
            subj, esub = '"b c"', (('col', 'b c'),)
        elif shape == 'composite':
            subj, esub = '(a, "b c")', (('col', 'a'), ('col', 'b c'))
        elif shape == 'expr':
            subj, esub = '`' + ex + '`', (('expr', ex),)
        else:
            subj, esub = '("b c", `' + ex + '`, a)', (('col', 'b c'), ('expr', ex), ('col', 'a'))
        st = []
        if a['s_un']:
            st.append(_case('unique', case))
        if a['s_pk']:
            st.append(_case('pk', case))
        if a['s_name']:
            st.append(_case('name', case) + ': ' + docs.q_single(txt))
        if a['s_note']:
            st.append(_case('note', case) + ': ' + docs.q_double(txt))
        if a['s_type']:
            st.append(_case('type', case) + ': ' + _case(itype, case))
        if a['rev']:
            st = st[::-1]
        if st:
            sett = (' [\n        ' + ',\n        '.join(st) + '\n      ]') if layout == 'multi' else (' [' + ', '.join(st) + ']')
        else:
            sett = ''
        doc = 'Table t {\n  a int\n  "b c" int\n  ' + _case('indexes', case) + ' {\n    ' + subj + sett + '\n    a\n  }\n}\n'
        iname = txt if (a['s_name'] and True) else None
        exp = _expect_db(tables=[_table('t', [_col('a'), _col('b c')], idx=[
            ('idx', esub, iname, a['s_un'], itype if a['s_type'] else None, a['s_pk'], norm(txt) if a['s_note'] else '', None),
            ('idx', (('col', 'a'),), None, False, None, False, '', None)])])
        return doc, exp, txt

    def body(a):
        doc, exp, txt = build(a)
        try:
            db = docs.parse(doc)
        except Exception:
            return 'well-formed document rejected'
        reached()
        return _compare(db, exp)

    def describe(a):
        doc, exp, _ = build(a)
        return {'document': doc, 'difference': _diff_text(doc, exp)}

    h = Harness(body, args, describe=describe, fixed=fix, bounds={'shape': shape, 'type': itype, 'layout': layout, 'case': case, 'K': K})
    h.build = lambda a: build(dict(a, **(fix or {})))[:2]
    return h


# ---- enum -----------------------------------------------------------------------------------------
def enum(case='same', K=2, fix=None):
    args = [('schema', 'bool'), ('quoted', 'bool'), ('note1', 'bool'), ('blank', 'bool'), ('third', 'bool')] + \
        hole_args('n', K, QNAME) + hole_args('b', K, BARE) + hole_args('t', K, TEXT)

    def build(a):
        qn = text_of(a, 'n', K)
        bn = text_of(a, 'b', K)
        txt = text_of(a, 't', K)
        i1 = docs.qname(qn) if a['quoted'] else bn
        n1 = qn if a['quoted'] else bn
        doc = (_case('Enum', case) + ' ' + ('"s 1".' if a['schema'] else '') + 'level {\n  ' + i1
               + ((' [' + _case('note', case) + ': ' + docs.q_single(txt) + ']') if a['note1'] else '') + '\n'
               + ('\n' if a['blank'] else '') + '  second\n' + ('    "th ird" [note: "n3"]\n' if a['third'] else '') + '}\n')
        items = [('item', n1, norm(txt) if a['note1'] else '', None), ('item', 'second', '', None)]
        if a['third']:
            items.append(('item', 'th ird', 'n3', None))
        exp = _expect_db(enums=[('enum', 's 1' if a['schema'] else 'public', 'level', None, tuple(items))])
        return doc, exp, n1

    def body(a):
        doc, exp, n1 = build(a)
        if a['quoted'] and _known_name_issue(n1):
            return ''
        try:
            db = docs.parse(doc)
        except Exception:
            return 'well-formed document rejected'
        reached()
        return _compare(db, exp)

    def describe(a):
        doc, exp, _ = build(a)
        return {'document': doc, 'difference': _diff_text(doc, exp)}

    h = Harness(body, args, describe=describe, fixed=fix, bounds={'case': case, 'K': K})
    h.build = lambda a: build(dict(a, **(fix or {})))[:2]
    return h


# ---- references -----------------------------------------------------------------------------------
ACTIONS = [None, 'no action', 'restrict', 'cascade', 'set null', 'set default']
OPS = ['>', '<', '-', '<>']


def reference(form, addr1, addr2, composite=False, case='same', K=2, fix=None):
    """form: short | block | inline ; addrN: full (schema.name) | bare | alias ; operator and actions symbolic, column name hole"""
    args = [('op', IntRange(0, 3 if form != 'inline' else 2)), ('named', 'bool'), ('upd', IntRange(0, 5)), ('dele', IntRange(0, 5))] + \
        hole_args('n', K, Cls('WORD'))

    def addr(which, mode):
        # table 1: public.orders alias O ; table 2: shop.items alias I
        if which == 1:
            return {'full': 'public.orders', 'bare': 'orders', 'alias': 'O'}[mode]
        return {'full': 'shop.items', 'bare': 'shop.items', 'alias': 'I'}[mode]

    def build(a):
        cn = text_of(a, 'n', K)
        cname = 'c_' + cn           # never collides with the fixed column names
        op = OPS[a['op']]
        upd, dele = ACTIONS[a['upd']], ACTIONS[a['dele']]
        st = []
        if upd:
            st.append(_case('update', case) + ': ' + _case(upd, case))
        if dele:
            st.append(_case('delete', case) + ': ' + _case(dele, case))
        sett = (' [' + ', '.join(st) + ']') if (st and form != 'inline') else ''
        left = addr(1, addr1) + '.' + (('(' + cname + ', id)') if composite else cname)
        right = addr(2, addr2) + '.' + ('(sku, id)' if composite else 'sku')
        nm = ' fk_name' if (a['named'] and form != 'inline') else ''
        inline_part = ''
        tail = ''
        if form == 'inline':
            # two inline references in one settings list (the second one to the other table's id column)
            inline_part = ' [' + 'ref: ' + op + ' ' + addr(2, addr2) + '.sku, unique, ref: < ' + addr(2, 'full') + '.id]'
        elif form == 'short':
            tail = _case('Ref', case) + nm + ': ' + left + ' ' + op + ' ' + right + sett + '\n'
        else:
            tail = _case('Ref', case) + nm + ' {\n  ' + left + ' ' + op + ' ' + right + sett + '\n}\n'
        doc = ('Table orders as O {\n  id int\n  ' + cname + ' int' + inline_part + '\n}\n'
               'Table shop.items as I {\n  id int\n  sku int\n}\n' + tail)
        c1 = (('public', 'orders', cname), ('public', 'orders', 'id')) if (composite and form != 'inline') else (('public', 'orders', cname),)
        c2 = (('shop', 'items', 'sku'), ('shop', 'items', 'id')) if (composite and form != 'inline') else (('shop', 'items', 'sku'),)
        ref = ('ref', op, form == 'inline', 'fk_name' if nm else None, None,
               upd if form != 'inline' else None, dele if form != 'inline' else None, c1, c2)
        more = [('ref', '<', True, None, None, None, None, (('public', 'orders', cname),), (('shop', 'items', 'id'),))] if form == 'inline' else []
        exp = _expect_db(tables=[_table('orders', [_col('id'), _col(cname, unique=(form == 'inline'))], alias='O'),
                                 _table('items', [_col('id'), _col('sku')], schema='shop', alias='I')], refs=[ref] + more)
        return doc, exp

    def body(a):
        doc, exp = build(a)
        try:
            db = docs.parse(doc)
        except Exception:
            return 'well-formed document rejected'
        reached()
        return _compare(db, exp)

    def describe(a):
        doc, exp = build(a)
        return {'document': doc, 'difference': _diff_text(doc, exp)}

    h = Harness(body, args, describe=describe, fixed=fix, bounds={'form': form, 'addr': [addr1, addr2], 'composite': composite, 'case': case, 'K': K})
    h.build = lambda a: build(dict(a, **(fix or {})))[:2]
    return h


# ---- group / project / sticky / whole document ----------------------------------------------------
def others(case='same', K=2, fix=None):
    """project (fields + note), table group (settings, note forms), sticky note, in symbolic order and presence"""
    args = [('p_note', 'bool'), ('g_color', 'bool'), ('g_note', IntRange(0, 2)), ('order', IntRange(0, 2)), ('g_two', 'bool')] + \
        hole_args('t', K, TEXT) + hole_args('k', 1, KEYS)

    def build(a):
        txt = text_of(a, 't', K)
        key = text_of(a, 'k', 1)
        proj = (_case('Project', case) + ' "my proj" {\n  ' + 'f_' + key + ': ' + docs.q_single(txt) + '\n  other: "x"\n'
                + (('  ' + _case('Note', case) + ': ' + docs.q_triple(txt) + '\n') if a['p_note'] else '') + '}\n')
        gs = ' [color: #1a2B3c]' if a['g_color'] else ''
        gnote = ''
        if a['g_note'] == 1:
            gnote = '  ' + _case('Note', case) + ': ' + docs.q_single(txt) + '\n'
        elif a['g_note'] == 2:
            gnote = '  ' + _case('note', case) + ' {\n    ' + docs.q_single(txt) + '\n  }\n'
        grp = _case('TableGroup', case) + ' "g 1"' + gs + ' {\n  a\n' + ('  s.b\n' if a['g_two'] else '') + gnote + '}\n'
        stk = _case('Note', case) + ' sticky_1 {\n  ' + docs.q_single(txt) + '\n}\n'
        tabs = 'Table a {\n  x int\n}\nTable s.b {\n  y int\n}\n'
        pieces = [proj, tabs, grp, stk]
        if a['order'] == 1:
            pieces = [stk, grp, tabs, proj]
        elif a['order'] == 2:
            pieces = [grp, proj, stk, tabs]
        doc = '\n'.join(pieces)
        exp = _expect_db(
            project=('project', 'my proj', (('f_' + key, txt), ('other', 'x')), norm(txt) if a['p_note'] else '', None),
            tables=[_table('a', [_col('x')]), _table('b', [_col('y')], schema='s')],
            groups=[('group', 'g 1', (('public', 'a'), ('s', 'b')) if a['g_two'] else (('public', 'a'),), None,
                     norm(txt) if a['g_note'] else '', '#1a2B3c' if a['g_color'] else None)],
            stickies=[('sticky', 'sticky_1', norm(txt))])
        return doc, exp

    def body(a):
        doc, exp = build(a)
        try:
            db = docs.parse(doc)
        except Exception:
            return 'well-formed document rejected'
        reached()
        return _compare(db, exp)

    def describe(a):
        doc, exp = build(a)
        return {'document': doc, 'difference': _diff_text(doc, exp)}

    h = Harness(body, args, describe=describe, fixed=fix, bounds={'case': case, 'K': K})
    h.build = lambda a: build(dict(a, **(fix or {})))[:2]
    return h


def equivalence(K=2):
    """the same reference written inline and standalone (short / block) gives the same content except the inline flag; element order in
    the source is the order in the database"""
    args = [('op', IntRange(0, 2)), ('swap', 'bool')] + hole_args('n', K, BARE)

    def body(a):
        cn = 'c_' + text_of(a, 'n', K)
        op = OPS[a['op']]
        t1 = 'Table a {\n  id int\n  ' + cn + ' int{R}\n}\n'
        t2 = 'Table b {\n  id int\n}\n'
        e1 = 'Enum e1 {\n  x\n}\n'
        e2 = 'Enum e2 {\n  y\n}\n'
        docs_ = []
        for form in ('inline', 'short', 'block'):
            r = ' [ref: ' + op + ' b.id]' if form == 'inline' else ''
            tail = '' if form == 'inline' else (('Ref: a.' + cn + ' ' + op + ' b.id\n') if form == 'short' else ('Ref {\n  a.' + cn + ' ' + op + ' b.id\n}\n'))
            parts = [e1, t1.replace('{R}', r), e2, t2] if not a['swap'] else [e2, t2, e1, t1.replace('{R}', r)]
            docs_.append(''.join(parts) + tail)
        res = []
        for d in docs_:
            try:
                res.append(content(docs.parse(d), inline=False))
            except Exception:
                return 'well-formed document rejected'
        reached()
        if res[0] != res[1] or res[1] != res[2]:
            return 'inline, short and block form of the same reference give different databases'
        enames = [e[2] for e in res[0][1]]
        tnames = [t[2] for t in res[0][2]]
        if enames != (['e2', 'e1'] if a['swap'] else ['e1', 'e2']) or tnames != (['b', 'a'] if a['swap'] else ['a', 'b']):
            return 'elements are not in source order'
        return ''

    return Harness(body, args, describe=lambda a: dict(a), bounds={'K': K})


def ref_order(K=1):
    """references appear in db.refs in source order, whether a standalone Ref comes before or after the table holding an inline one"""
    args = [('first', 'bool'), ('op', IntRange(0, 2)), ('block', 'bool')] + hole_args('n', K, BARE)

    def build(a):
        cn = 'c_' + text_of(a, 'n', K)
        op = OPS[a['op']]
        st = ('Ref named {\n  b.y ' + op + ' a.' + cn + '\n}\n') if a['block'] else ('Ref named: b.y ' + op + ' a.' + cn + '\n')
        ta = 'Table a {\n  ' + cn + ' int [ref: - b.z]\n}\n'
        tb = 'Table b {\n  y int\n  z int [ref: > a.' + cn + ']\n}\n'
        doc = (st + ta + tb) if a['first'] else (ta + st + tb)
        r_st = ('ref', op, False, 'named', None, None, None, (('public', 'b', 'y'),), (('public', 'a', cn),))
        r_a = ('ref', '-', True, None, None, None, None, (('public', 'a', cn),), (('public', 'b', 'z'),))
        r_b = ('ref', '>', True, None, None, None, None, (('public', 'b', 'z'),), (('public', 'a', cn),))
        refs = [r_st, r_a, r_b] if a['first'] else [r_a, r_st, r_b]
        exp = _expect_db(tables=[_table('a', [_col(cn)]), _table('b', [_col('y'), _col('z')])], refs=refs)
        return doc, exp

    def body(a):
        doc, exp = build(a)
        try:
            db = docs.parse(doc)
        except Exception:
            return 'well-formed document rejected'
        reached()
        return _compare(db, exp)

    def describe(a):
        doc, exp = build(a)
        return {'document': doc, 'difference': _diff_text(doc, exp)}

    h = Harness(body, args, describe=describe, bounds={'K': K})
    h.build = build
    return h


NUMBERS = [
    # (source literal, expected kind and value): the literal kind is part of the model; nothing is rounded
    ('0', ('int', 0)), ('7', ('int', 7)), ('007', ('int', 7)), ('12345678901234567890', ('int', 12345678901234567890)),
    ('9007199254740993', ('int', 9007199254740993)), ('2.0', ('float', 2.0)), ('0.0', ('float', 0.0)), ('10.50', ('float', 10.5)),
    ('3.25', ('float', 3.25)), ('123456789.125', ('float', 123456789.125)), ('1.00', ('float', 1.0)), ('0.1', ('float', 0.1)),
]


def numbers(case='same'):
    """numeric defaults: integer literals stay integers (of any size), literals with a fraction part stay floats (also n.0)"""
    args = [('lit', IntRange(0, len(NUMBERS) - 1)), ('second', 'bool'), ('multi', 'bool')]

    def build(a):
        src, exp = NUMBERS[a['lit']]
        sep = ',\n    ' if a['multi'] else ', '
        doc = ('Table t {\n  c int [' + ('\n    ' if a['multi'] else '') + 'not null' + sep + _case('default', case) + ': ' + src
               + ('\n  ' if a['multi'] else '') + ']\n' + ('  d numeric [default: ' + src + ', unique]\n' if a['second'] else '') + '}\n')
        cols = [('col', 'c', ('str', 'int'), False, False, True, False, exp, '', None, ())]
        if a['second']:
            cols.append(('col', 'd', ('str', 'numeric'), False, True, False, False, exp, '', None, ()))
        return doc, cols

    def body(a):
        doc, cols = build(a)
        try:
            db = docs.parse(doc)
        except Exception:
            return 'well-formed document rejected'
        reached()
        got = content(db)[2][0][8]
        if len(got) != len(cols):
            return 'wrong number of columns'
        for g, c in zip(got, cols):
            if g[7] != c[7]:
                return 'numeric default stored with another kind or value than the literal declares'
            if g != c:
                return 'column differs from what the document declares'
        return ''

    def describe(a):
        doc, cols = build(a)
        try:
            got = [c[7] for c in content(docs.parse(doc))[2][0][8]]
        except Exception as e:
            got = repr(e)
        return {'document': doc, 'expected_defaults': [c[7] for c in cols], 'stored_defaults': got}

    h = Harness(body, args, describe=describe, bounds={'literals': [n for n, _ in NUMBERS]})
    h.build = build
    return h


def instances(tier):
    out = []

    def add(name, factory, params, timeout=280, **kw):
        d = {'name': name, 'factory': factory, 'params': params, 'timeout': timeout, 'native_limit': 80}
        d.update(kw)
        out.append(d)

    quick = tier == 'quick'
    K = 2
    T1 = 280 if quick else 3000
    # ---- columns: s_pk (3) and s_nn (3) stay symbolic; unique / increment / note presence are fanned out
    masks = [{'s_un': True, 's_ai': False, 's_note': True}, {'s_un': False, 's_ai': True, 's_note': False},
             {'s_un': True, 's_ai': True, 's_note': True}, {'s_un': False, 's_ai': False, 's_note': False}]
    if quick:
        col_variants = [
            ('word', 'none', 'id', 'one', 'same', False, False), ('args', 'int', 'rev', 'one', 'upper', True, False),
            ('array', 'str1', 'rot', 'multi', 'same', False, False), ('dotted', 'expr', 'id', 'one', 'mixed', True, False),
            ('quoted', 'null', 'rev', 'multi', 'lower', False, True), ('enum', 'str3', 'id', 'one', 'same', True, False),
            ('enum_q', 'false', 'rot', 'one', 'upper', False, False), ('word', 'float', 'id', 'multi', 'mixed', False, True),
            ('args', 'true', 'rev', 'one', 'same', False, False), ('word', 'str2', 'id', 'one', 'same', False, False),
            ('enum_elsewhere', 'str1', 'id', 'one', 'same', False, False),
        ]
    else:
        col_variants = []
        i = 0
        for tk in TYPE_KINDS:
            for dk in DEFAULT_KINDS:
                col_variants.append((tk, dk, ORDERS[i % 3], ('one', 'multi')[i % 2], ('same', 'upper', 'lower', 'mixed')[i % 4],
                                     bool(i % 2), i % 5 == 0))
                i += 1
    for i, (tk, dk, od, lay, cs, q, leg) in enumerate(col_variants):
        for mi in ([i % 4] if quick else [i % 4, (i + 1) % 4]):
            add(f"col/{tk}/{dk}/{od}/{lay}/{cs}/{'q' if q else 'b'}{'/legacy' if leg else ''}/m{mi}", 'column',
                {'tkind': tk, 'dkind': dk, 'order': od, 'layout': lay, 'case': cs, 'quoted': q, 'K': K if (q or not quick) else 1,
                 'legacy': leg, 'fix': masks[mi], 'props_on': (i % 3 == 2)}, T1)
    # ---- tables: alias / settings note / body note symbolic; schema, colour, blank lines fanned out
    forms = ['inline', 'block', 'triple']
    tmasks = [{'h_schema': True, 'h_color': False, 'blank': True, 'hs_multi': False}, {'h_schema': False, 'h_color': True, 'blank': False, 'hs_multi': True},
              {'h_schema': True, 'h_color': True, 'blank': False, 'hs_multi': True}]
    for i, bo in enumerate(BODY_ORDERS):
        if quick and i % 2 == 1:
            continue
        add(f'table/{bo}/{forms[i % 3]}/m{i % 3}', 'table', {'body_order': bo, 'note_form': forms[i % 3], 'case': ('same', 'upper', 'mixed')[i % 3],
                                                          'K': 1 if quick else K, 'fix': tmasks[i % 3]}, T1)
    if not quick:
        for i, bo in enumerate(BODY_ORDERS):
            for j in (1, 2):
                add(f'table/{bo}/{forms[(i + j) % 3]}/m{(i + j) % 3}', 'table',
                    {'body_order': bo, 'note_form': forms[(i + j) % 3], 'case': 'lower', 'K': K, 'fix': tmasks[(i + j) % 3]}, T1)
    # ---- indexes: unique / pk / order symbolic; name, note, type presence fanned out
    shapes = ['single', 'quoted', 'composite', 'expr', 'mixed']
    imasks = [{'s_name': True, 's_note': False, 's_type': True}, {'s_name': False, 's_note': True, 's_type': False},
              {'s_name': True, 's_note': True, 's_type': True}]
    for i, sh in enumerate(shapes):
        add(f'index/{sh}/{IDX_TYPES[i]}/m{i % 3}', 'index', {'shape': sh, 'itype': IDX_TYPES[i], 'layout': ('one', 'multi')[i % 2],
                                                           'case': ('same', 'upper', 'mixed')[i % 3], 'K': 1 if quick else K, 'fix': imasks[i % 3]}, T1)
    if not quick:
        for i, sh in enumerate(shapes):
            for j in (1, 2):
                add(f'index/{sh}/{IDX_TYPES[(i + 3) % 6]}/m{(i + j) % 3}', 'index',
                    {'shape': sh, 'itype': IDX_TYPES[(i + 3) % 6], 'layout': ('multi', 'one')[i % 2], 'case': 'lower', 'K': K,
                     'fix': imasks[(i + j) % 3]}, T1)
    # ---- enums: quoting and note of the first item symbolic
    emasks = [{'schema': True, 'blank': False, 'third': True}, {'schema': False, 'blank': True, 'third': False}]
    add('enum/same/m0', 'enum', {'case': 'same', 'K': K, 'fix': emasks[0]}, T1)
    add('enum/upper/m1', 'enum', {'case': 'upper', 'K': K, 'fix': emasks[1]}, T1)
    # ---- references: operator and naming symbolic; action pairs fanned out
    ref_variants = [('short', 'full', 'full', False), ('block', 'bare', 'alias', False), ('inline', 'bare', 'alias', False),
                    ('short', 'alias', 'bare', True), ('block', 'full', 'alias', True), ('inline', 'alias', 'full', False)]
    if not quick:
        ref_variants += [('short', 'bare', 'bare', False), ('block', 'alias', 'alias', False), ('block', 'alias', 'full', True),
                         ('short', 'full', 'alias', True)]
    acts = [{'upd': 0, 'dele': 3}, {'upd': 4, 'dele': 0}, {'upd': 1, 'dele': 5}, {'upd': 2, 'dele': 2}, {'upd': 0, 'dele': 0}]
    for i, (f, a1, a2, comp) in enumerate(ref_variants):
        for j in ([i % 5] if quick else [i % 5, (i + 2) % 5]):
            add(f"ref/{f}/{a1}-{a2}{'/composite' if comp else ''}/a{j}", 'reference',
                {'form': f, 'addr1': a1, 'addr2': a2, 'composite': comp, 'case': ('same', 'upper', 'mixed')[i % 3], 'K': 1 if quick else 2,
                 'fix': acts[j]}, T1)
    # ---- project / group / sticky: group note form and element order symbolic
    omasks = [{'p_note': True, 'g_color': False, 'g_two': True, 'order': 0}, {'p_note': False, 'g_color': True, 'g_two': False, 'order': 2},
              {'p_note': True, 'g_color': True, 'g_two': True, 'order': 1}]
    add('others/same/m0', 'others', {'case': 'same', 'K': 1 if quick else K, 'fix': omasks[0]}, T1)
    add('others/mixed/m1', 'others', {'case': 'mixed', 'K': 1 if quick else K, 'fix': omasks[1]}, T1)
    if not quick:
        add('others/upper/m2', 'others', {'case': 'upper', 'K': K, 'fix': omasks[2]}, T1)
    add('equivalence', 'equivalence', {'K': 1 if quick else 2}, T1)
    add('ref_order', 'ref_order', {'K': 1 if quick else 2}, T1)
    add('numbers', 'numbers', {'case': 'mixed'}, T1)
    return out
