"""C08 - Parsing and rendering never fail with an internal error."""
from harness.common import Harness, Cls, hole_args, text_of, reached, allowed_parse_exceptions, region_active
from harness import templates as T
from harness import docs
from harness.mutate import mutation, batches

THOROUGH_STRIDE = 7      # the registered thorough tier runs every 7th instance of each family of the full cross product (vp_check.py --tier full runs all)

ASSUMPTIONS = [
    'inputs are the six base documents with ONE token (or the inside of one quoted token) replaced by K arbitrary BMP characters '
    '(controls, quotes, braces, BOM, line separators included), plus token soups of K characters after fixed prefixes; '
    'K = 1..2 quick, up to 3 thorough; anything longer / more than one mutated site is outside the claim',
    'termination is checked as a per-path time limit of the symbolic run, not proved',
]

ANYC = Cls('ANYBMP')


def _render_all(db):
    db.dbml
    db.sql
    # (no hasattr here: CrossHair evaluates hasattr natively, which would run the .sql property untraced)
    for coll in (db.tables, db.enums, db.refs):
        for o in coll:
            o.dbml
            o.sql
    for coll in (db.table_groups, db.sticky_notes):
        for o in coll:
            o.dbml
    if db.project is not None:
        db.project.dbml
    for t in db.tables:
        for c in t.columns:
            c.dbml
            c.sql
        for i in t.indexes:
            i.dbml
            i.sql
        t.note.dbml
        t.note.sql


def _judge(a, sp, g, outcome):
    reached()
    if outcome[0] == 'raise':
        if isinstance(outcome[1], allowed_parse_exceptions()):
            return ''
        return 'parsing escaped with an internal error: ' + type(outcome[1]).__name__
    try:
        _render_all(outcome[1])
    except Exception as e:
        return 'rendering a database returned by the parser raised ' + type(e).__name__
    return ''


def _token_spans(text, inner):
    out = []
    for kind, s, e in T.scan(text):
        if inner:
            if kind in ('str1', 'qname', 'expr') and e - s >= 2:
                out.append((s + 1, e - 1, 'inside ' + kind))
            elif kind == 'str3':
                out.append((s + 3, e - 3, 'inside ' + kind))
        else:
            out.append((s, e, kind))
    return out


def replace_token(element, batch, K, inner=False, size=4):
    text = T.ELEMENTS[element]
    spans = batches(_token_spans(text, inner), size)[batch]
    return mutation(element, spans, K, ANYC, _judge, extra_bounds={'family': 'inside-token' if inner else 'token'})


PREFIXES = {
    'empty': '',
    'bom': '﻿',
    'comment': '// c\n',
    'table_open': 'Table t {\n  ',
    'col_settings': 'Table t {\n  c int [',
    'col_type': 'Table t {\n  c ',
    'col_type_paren': 'Table t {\n  c v(',
    'note': "Table t {\n  c int [note: '",
    'note3': "Table t {\n  c int\n  Note: '''",
    'enum': 'Enum e {\n  ',
    'ref': 'Table t {\n  c int\n}\nRef: t.c > t.',
    'ref_comment': 'Table t {\n  c int\n}\nRef: t.c > t.c //',
    'index': 'Table t {\n  c int\n  indexes {\n    ',
    'project': 'Project p {\n  ',
    'group': 'Table t {\n  c int\n}\nTableGroup g {\n  ',
    'sticky': 'Note n {\n  ',
    'default': 'Table t {\n  c int [default: ',
    'header': 'Table t [',
    'group_quoted': 'Table t {\n  c int\n}\nTableGroup g {\n  "',
    'type_quoted': 'Table t {\n  c "',
    'ref_quoted': 'Table t {\n  c int\n}\nRef: t.c > t."',
    'project_name': 'Project "',
    'group_name': 'Table t {\n  c int\n}\nTableGroup "',
}
SUFFIXES = {
    'note': "']\n}\n", 'note3': "'''\n}\n", 'col_settings': ']\n}\n', 'col_type': '\n}\n', 'col_type_paren': ')\n}\n', 'table_open': '\n}\n',
    'enum': '\n}\n', 'index': '\n  }\n}\n', 'project': '\n}\n', 'group': '\n}\n', 'sticky': '\n}\n', 'default': ']\n}\n',
    'header': '] {\n c int\n}\n', 'ref': '\n', 'ref_comment': '\n',
    'group_quoted': '".t\n}\n', 'type_quoted': '"\n}\n', 'ref_quoted': '"\n', 'project_name': '" {\n  k: \'v\'\n}\n', 'group_name': '" {\n  t\n}\n',
}


def soup(prefix, K, closed=True):
    """prefix + K arbitrary characters (+ the matching closing text when closed)"""
    pre = PREFIXES[prefix]
    suf = SUFFIXES.get(prefix, '') if closed else ''

    def body(a):
        g = text_of(a, 'g', K)
        doc = pre + g + suf
        try:
            db = docs.parse(doc)
            outcome = ('ok', db)
        except Exception as e:
            outcome = ('raise', e)
        return _judge(a, None, g, outcome)

    return Harness(body, hole_args('g', K, ANYC),
                   describe=lambda a: {'document': pre + ''.join(chr(a[f'g{i}']) for i in range(K)) + suf},
                   bounds={'prefix': pre, 'suffix': suf, 'K': K})


def empty_input():
    """empty, blank-only, BOM-only and comment-only inputs return a database that renders"""
    from harness.common import IntRange
    DOCS = ['', ' ', '\n', '\ufeff', '\ufeff\n', '// c', '/* c */', '\t', '\r\n']

    def body(a):
        try:
            db = docs.parse(DOCS[a['d']])
            outcome = ('ok', db)
        except Exception as e:
            outcome = ('raise', e)
        if outcome[0] == 'raise':
            return 'a document without elements was rejected'
        if type(outcome[1]).__name__ != 'Database':
            return 'parsing did not return a database'
        return _judge(a, None, '', outcome)

    return Harness(body, [('d', IntRange(0, len(DOCS) - 1))], describe=lambda a: {'document': DOCS[a['d']]}, bounds={'documents': DOCS})


REF_TABLES = 'Table a {\n  b int\n  b_c int\n  c int\n}\nTable a_b {\n  b int\n  c int\n  b_c int\n}\n'
REF_COLS = ['b', 'b_c', 'c']
REF_OPS = ['>', '<', '-', '<>']


def ref_shapes(op, form):
    """every pairing of endpoints of a reference between (or inside) two tables whose generated names can coincide
    (a.b_c / a_b.c, a column related to itself, composite sides that coincide): whatever parses must render"""
    from harness.common import IntRange
    args = [('lt', IntRange(0, 1)), ('lc', IntRange(0, 2)), ('rt', IntRange(0, 1)), ('rc', IntRange(0, 2))]

    def build(a):
        a = dict(a, form=form)
        L, R = ('a', 'a_b')[a['lt']], ('a', 'a_b')[a['rt']]
        lc, rc = REF_COLS[a['lc']], REF_COLS[a['rc']]
        if a['form'] == 0:
            return REF_TABLES + 'Ref: ' + L + '.' + lc + ' ' + op + ' ' + R + '.' + rc + '\n'
        if a['form'] == 1:
            return REF_TABLES + 'Ref r {\n  ' + L + '.(' + lc + ', ' + rc + ') ' + op + ' ' + R + '.(' + lc + ', ' + rc + ')\n}\n'
        return ('Table a_b {\n  b int\n  c int\n  b_c int\n}\nTable a {\n  b int\n  b_c int\n  c int\n  x' + lc + ' int [ref: ' + op + ' '
                + R + '.' + rc + ']\n}\n')

    def body(a):
        try:
            outcome = ('ok', docs.parse(build(a)))
        except Exception as e:
            outcome = ('raise', e)
        return _judge(a, None, '', outcome)

    return Harness(body, args, describe=lambda a: {'document': build(a)}, bounds={'operator': op, 'form': ['short', 'block composite', 'inline'][form], 'tables': REF_TABLES})


LITERALS = {
    # outside the bounds of the symbolic families (K characters per hole): reported by the sub-agent that seeded C08 changes
    'huge_integer_default': "Table t {\n  c int [default: " + '1' * 4301 + "]\n}\n",
}


def literal(which):
    """a pinned document outside the symbolic bounds; recorded findings of this kind are replayed through it on every run"""
    from harness.common import IntRange

    def body(a):
        try:
            outcome = ('ok', docs.parse(LITERALS[which]))
        except Exception as e:
            outcome = ('raise', e)
        return _judge(a, None, '', outcome)

    return Harness(body, [('d', IntRange(0, 0))], describe=lambda a: {'document': LITERALS[which][:60] + ' ...'}, bounds={'document': which})


def _count(element, inner, size=4):
    return (len(_token_spans(T.ELEMENTS[element], inner)) + size - 1) // size


def instances(tier):
    out = []
    quick = tier == 'quick'
    T1 = 280 if quick else 3000
    for ei, element in enumerate(T.ELEMENTS):
        for inner in (False, True):
            nb = _count(element, inner)
            for b in range(nb):
                if quick and ((b + ei) % (11 if not inner else 4) != 0 or (element == 'table' and b == 0)):
                    continue
                tag = 'inner' if inner else 'tok'
                out.append({'name': f'{tag}/{element}/b{b}/K1', 'factory': 'replace_token',
                            'params': {'element': element, 'batch': b, 'K': 1, 'inner': inner}, 'timeout': T1, 'native_limit': 60})
                if not quick or (inner and b % 8 == 0 and element != 'table'):
                    out.append({'name': f'{tag}/{element}/b{b}/K2', 'factory': 'replace_token',
                                'params': {'element': element, 'batch': b, 'K': 2, 'inner': inner}, 'timeout': T1, 'native_limit': 80})
    out.append({'name': 'empty_input', 'factory': 'empty_input', 'params': {}, 'timeout': T1, 'native_limit': 20})
    for op in REF_OPS:
        for form in range(3):
            if quick and op != '<>' and (op, form) not in (('>', 0), ('<', 2), ('-', 1)):
                continue
            out.append({'name': 'ref_shapes/' + {'>': 'gt', '<': 'lt', '-': 'one', '<>': 'm2m'}[op] + '/' + ['short', 'block', 'inline'][form],
                        'factory': 'ref_shapes', 'params': {'op': op, 'form': form}, 'timeout': T1, 'native_limit': 120})
    heavy = ('col_settings', 'col_type', 'col_type_paren', 'enum', 'project', 'group', 'default')
    for pfx in PREFIXES:
        for closed in ((True,) if pfx not in SUFFIXES else (True, False)):
            if quick and not closed and pfx not in ('note', 'ref'):
                continue
            k = (1 if pfx in heavy else 2) if quick else (2 if pfx in heavy else 3)
            out.append({'name': f"soup/{pfx}/{'closed' if closed else 'open'}/K{k}", 'factory': 'soup',
                        'params': {'prefix': pfx, 'K': k, 'closed': closed}, 'timeout': T1 if quick else 6000, 'native_limit': 120})
    return out
