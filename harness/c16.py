"""C16 - Element and database renderings agree and use the configured renderers."""
from harness.common import Harness, IntRange, Cls, hole_args, text_of, reached
from harness import docs
from oracle.content import content

ASSUMPTIONS = [
    'databases with <= 3 tables, an enum, references (inline, standalone, many-to-many), a group, a sticky note and a project, built '
    'through the API or parsed; three renderer configurations (default, partial custom class given to Database, custom class passed '
    'through the parser); evaluation order of element / database renderings is a symbolic selector; names are K-character holes',
]

NAME = Cls('NARROW', minus='"\'\\{}')


def _custom(handled, marker, base='base', as_sql=True):
    """a partial renderer: handlers only for the classes in `handled`; everything else falls back to ''
    base 'base': derived from BaseRenderer; 'default': derived from the default SQL / DBML renderer class with a registry of its own"""
    from pydbml.renderer.base import BaseRenderer
    import pydbml.classes as C
    if base == 'default':
        from pydbml.renderer.sql.default import DefaultSQLRenderer
        from pydbml.renderer.dbml.default import DefaultDBMLRenderer
        Base = DefaultSQLRenderer if as_sql else DefaultDBMLRenderer
    else:
        Base = BaseRenderer

    class Partial(Base):
        model_renderers = {}

        @classmethod
        def render_db(cls, db):
            return 'DB<' + '|'.join(cls.render(t) for t in db.tables) + '>'
    for name in handled:
        def h(model, _n=name):
            return marker + ':' + _n
        Partial.renderer_for(getattr(C, name))(h)
    return Partial


KINDS = ['Table', 'Enum', 'Reference', 'TableGroup', 'Project', 'StickyNote', 'Column']


GAPS = ['', '\n', '\n\n', '\n\n\n']       # empty lines inside a note text


def _build(a, nm, with_tables, sqlr=None, dbmlr=None, gap=''):
    from pydbml import Database
    from pydbml.classes import Table, Column, Enum, EnumItem, Reference, TableGroup, Project, StickyNote, Index
    kw = {}
    if sqlr is not None:
        kw['sql_renderer'] = sqlr
    if dbmlr is not None:
        kw['dbml_renderer'] = dbmlr
    db = Database(**kw)
    en = Enum('e_' + nm, [EnumItem('on'), EnumItem('off')])
    db.add(en)
    tabs = []
    if with_tables:
        t1 = Table('a', columns=[Column('id', 'int', pk=True), Column('c_' + nm, en), Column('x', 'int')])
        t2 = Table('a' + nm[:0] + 'b', schema='s', columns=[Column('id', 'int'), Column('y', 'int', note=nm)])
        t3 = Table('c', columns=[Column('id', 'int'), Column('z', 'int', note='c1' + gap + 'c2')], note='l1' + gap + 'l2')
        t1.add_index(Index([t1.columns[2]], name='i_' + nm))
        for t in (t3, t1, t2):      # c first: the SQL order (tables holding inline FKs first) differs from db.tables
            db.add(t)
        tabs = [t3, t1, t2]
        db.add(Reference('>', [t1.columns[2]], [t3.columns[0]], inline=True))      # a holds an inline FK: SQL order differs from db.tables
        db.add(Reference('<', [t1.columns[0]], [t2.columns[1]], inline=True))
        db.add(Reference('>', [t3.columns[1]], [t2.columns[0]], name='r_' + nm))
        db.add(Reference('<>', [t3.columns[0]], [t1.columns[0]]))
    db.add(TableGroup('g_' + nm, list(tabs[:2])))
    db.add(Project('p_' + nm, items={'k': nm}))
    db.add(StickyNote('s1', nm))
    db.add(StickyNote('s2', nm))
    db.add(StickyNote('s4', 'n1' + gap + 'n2'))
    db.add(StickyNote('s3', ''))        # an empty sticky note is still an element of the database
    return db


def default_agreement(K=1, fix=None):
    """default renderers: each element's text appears exactly once in the database text; rendering has no side effects"""
    args = [('order', IntRange(0, 3)), ('with_tables', 'bool'), ('gap', IntRange(0, 3))] + hole_args('n', K, NAME)

    def _edit(db):
        # an edit of the model after (or without) earlier renderings
        if db.tables:
            db.tables[1].name = 'ren'
            db.tables[1].columns[0].type = 'bigint'
            db.tables[0].columns[0].name = 'key'
        db.enums[0].name = 'e_ren'
        db.project.items['k2'] = 'v2'

    def body(a):
        nm = text_of(a, 'n', K)
        db = _build(a, nm, a['with_tables'], gap=GAPS[a['gap']])
        before = content(db)
        order_before = [t.name for t in db.tables]
        try:
            if a['order'] == 0:
                d, s = db.dbml, db.sql
                el = [(o.dbml, o.sql) for o in db.tables]
            elif a['order'] == 1:
                el = [(o.dbml, o.sql) for o in db.tables]
                s, d = db.sql, db.dbml
            elif a['order'] == 2:
                s = db.sql
                el = [(o.dbml, o.sql) for o in db.tables]
                s = db.sql
                d = db.dbml
            else:
                d = db.dbml
                d = db.dbml
                s = db.sql
                el = [(o.dbml, o.sql) for o in db.tables]
        except Exception as e:
            return 'rendering raised ' + type(e).__name__
        reached()
        if content(db) != before or [t.name for t in db.tables] != order_before:
            return 'rendering changed the model'
        if db.dbml != d or db.sql != s:
            return 'a later rendering differs from an earlier one'
        for (ed, es), t in zip(el, db.tables):
            if ed != t.dbml or es != t.sql:
                return 'element rendering changed after other renderings'
        for t in db.tables:
            if d.count(t.dbml) != 1:
                return 'table DBML does not appear exactly once in the database DBML'
            if s.count(t.sql) != 1:
                return 'table SQL does not appear exactly once in the database SQL'
        for e in db.enums:
            if d.count(e.dbml) != 1 or s.count(e.sql) != 1:
                return 'enum text does not appear exactly once in the database text'
        for r in db.refs:
            if not r.inline:
                if d.count(r.dbml) != 1 or s.count(r.sql) != 1:
                    return 'reference text does not appear exactly once in the database text'
        for g in db.table_groups:
            if d.count(g.dbml) != 1:
                return 'table group DBML does not appear exactly once'
        for n in db.sticky_notes:
            if d.count(n.dbml) != 1:
                return 'sticky note DBML does not appear exactly once'
        if d.count(db.project.dbml) != 1:
            return 'project DBML does not appear exactly once'
        # no side effects: after an edit, the renderings are those of an equal database that was never rendered before
        twin = _build(a, nm, a['with_tables'], gap=GAPS[a['gap']])
        _edit(db)
        _edit(twin)
        try:
            if db.sql != twin.sql or db.dbml != twin.dbml:
                return 'renderings evaluated before an edit influence the renderings after it'
            for o, o2 in zip(list(db.tables) + list(db.refs), list(twin.tables) + list(twin.refs)):
                if o.sql != o2.sql or o.dbml != o2.dbml:
                    return 'element renderings evaluated before an edit influence those after it'
        except Exception as e:
            return 'rendering after an edit raised ' + type(e).__name__
        return ''

    return Harness(body, args, describe=lambda a: dict(a), bounds={'K': K}, fixed=fix)


def configured(route, mask, K=1, base='base'):
    """custom partial renderer: attached elements render through it, unhandled types give '', detached ones use the defaults"""
    args = [('with_tables', 'bool'), ('which', IntRange(0, 1)), ('warm', 'bool')] + hole_args('n', K, NAME)

    def body(a):
        from pydbml.classes import Table, Column, Enum, EnumItem, StickyNote, Project, Reference
        nm = text_of(a, 'n', K)
        handled = [k for i, k in enumerate(KINDS) if (mask >> i) & 1]
        as_sql = a['which'] == 0
        plain, plain_sql, plain_dbml = None, None, None
        if a['warm']:
            # a database with the default renderers is rendered first (and must render the same afterwards)
            plain = _build(a, 'w', True)
            try:
                plain_sql, plain_dbml = plain.sql, plain.dbml
            except Exception:
                return 'default rendering raised'
        R = _custom(handled, 'M', base, as_sql)
        if route == 'database':
            db = _build(a, nm, a['with_tables'], sqlr=R if as_sql else None, dbmlr=None if as_sql else R)
        else:
            doc = ('Project p {\n  k: \'v\'\n}\nEnum e {\n  on\n}\n' + ('Table a {\n  id int\n  c e\n}\nTable s.b {\n  id int [ref: > a.id]\n}\nRef: a.c > s.b.id\n'
                   'TableGroup g {\n  a\n}\n' if a['with_tables'] else 'TableGroup g {\n}\n') + 'Note s1 {\n  \'x\'\n}\n')
            kw = {'sql_renderer': R} if as_sql else {'dbml_renderer': R}
            try:
                if route == 'parser':
                    db = docs.parse(doc, **kw)
                else:
                    # the same arguments given together with a Path / an open text file (I/O stubbed as in C12)
                    import pydbml.parser.parser as pp_mod
                    from harness.c12 import _routes
                    calls = []
                    try:
                        rts = _routes(doc, calls, **kw)
                        db = rts[1][1]() if route == 'parser_path' else rts[2][1]()
                    finally:
                        if 'open' in pp_mod.__dict__:
                            del pp_mod.open
            except Exception:
                return 'valid document rejected'
        reached()
        if (db.sql_renderer if as_sql else db.dbml_renderer) is not R:
            return 'the configured renderer class is not stored on the database'

        def text(o):
            return o.sql if as_sql else o.dbml
        objs = list(db.tables) + list(db.enums) + list(db.refs) + ([] if as_sql else list(db.table_groups) + list(db.sticky_notes) + [db.project])
        for o in objs:
            kind = type(o).__name__
            try:
                got = text(o)
            except Exception as e:
                if as_sql and type(e).__name__ in ('AttributeMissingError',):
                    return 'configured SQL renderer: unexpected attribute error'
                return 'rendering an attached element through the configured renderer raised ' + type(e).__name__
            want = ('M:' + kind) if kind in handled else ''
            if got != want:
                return 'attached ' + kind + ' was not rendered by the configured renderer (or its fallback is not the empty string)'
        for t in db.tables:
            for c in t.columns:
                want = 'M:Column' if 'Column' in handled else ''
                if text(c) != want:
                    return 'column of an attached table was not rendered by the configured renderer'
        whole = db.sql if as_sql else db.dbml
        want_db = 'DB<' + '|'.join(('M:Table' if 'Table' in handled else '') for _ in db.tables) + '>'
        if whole != want_db:
            return 'database text is not produced by the configured renderer class'
        # detached elements use the default renderers
        e = Enum('zz', [EnumItem('q')])
        n = StickyNote('sn', 'txt')
        from pydbml.renderer.sql.default import DefaultSQLRenderer
        from pydbml.renderer.dbml.default import DefaultDBMLRenderer
        if as_sql:
            if e.sql != DefaultSQLRenderer.render(e) or 'zz' not in e.sql:
                return 'detached enum is not rendered by the default SQL renderer'
        else:
            if e.dbml != DefaultDBMLRenderer.render(e) or n.dbml != DefaultDBMLRenderer.render(n) or 'zz' not in e.dbml or 'txt' not in n.dbml:
                return 'detached element is not rendered by the default DBML renderer'
        if plain is not None:
            if plain.sql != plain_sql or plain.dbml != plain_dbml:
                return 'renderings of a database with the default renderers changed after a custom renderer was used'
            e2 = plain.enums[0]
            if e2.sql != DefaultSQLRenderer.render(e2) or e2.dbml != DefaultDBMLRenderer.render(e2) or 'e_w' not in e2.dbml:
                return 'element of a database with the default renderers is not rendered by them'
        # an element removed from the database - here through an equal but distinct object - is detached: default renderers
        if route == 'database' and a['with_tables']:
            stored = db.refs[2]
            twin = Reference('>', list(stored.col1), list(stored.col2), name=stored.name)
            try:
                db.delete(twin)
            except Exception:
                return 'deleting a contained reference through an equal object raised'
            if any(r is stored for r in db.refs):
                return 'the reference is still contained after its deletion'
            want = DefaultSQLRenderer.render(stored) if as_sql else DefaultDBMLRenderer.render(stored)
            if text(stored) != want or 'r_' not in want:
                return 'a reference removed from the database is still rendered by the database\'s configured renderer'
        return ''

    return Harness(body, args, describe=lambda a: dict(a, route=route, mask=mask, base=base),
                   bounds={'route': route, 'K': K, 'kinds': KINDS, 'mask': mask, 'custom class derived from': base})


def instances(tier):
    quick = tier == 'quick'
    T1 = 280 if quick else 3000
    K = 1 if quick else 2
    out = [{'name': f'default_agreement/order{o}', 'factory': 'default_agreement', 'params': {'K': K, 'fix': {'order': o}}, 'timeout': T1, 'native_limit': 60}
           for o in range(4)]
    masks = [0, 127, 0b0101010, 0b1010101] if quick else list(range(0, 128, 9)) + [127]
    for route in ('database', 'parser', 'parser_path', 'parser_file'):
        for m in (masks if route in ('database', 'parser') else masks[1:3]):
            out.append({'name': f'configured/{route}/mask{m}', 'factory': 'configured', 'params': {'route': route, 'mask': m, 'K': K},
                        'timeout': T1, 'native_limit': 60})
    # the custom class derived from the default renderer class (own registry), used after the defaults have rendered
    for route in ('database', 'parser'):
        for m in (masks[1:3] if quick else masks):
            out.append({'name': f'configured/{route}/subclass_of_default/mask{m}', 'factory': 'configured',
                        'params': {'route': route, 'mask': m, 'K': K, 'base': 'default'}, 'timeout': T1, 'native_limit': 60})
    return out
