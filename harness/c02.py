"""C02 - DBML round trip: parse(render(db)) equals db and rendering is a fixpoint."""
from harness.common import Harness, Cls, IntRange, Enum, hole_args, text_of, reached, region_active
from harness import docs, c01
from oracle.content import content, first_difference

THOROUGH_STRIDE = 8      # the registered thorough tier runs every 8th instance of each family of the full cross product (vp_check.py --tier full runs all)

ASSUMPTIONS = [
    'databases are (a) the parsed results of the C01 scenario documents and (b) API-built models over the DBML-expressible value '
    'domain of DESIGN 3.2 (names are quote-free, note texts are in normal form, numeric defaults non-negative, no tabs)',
    'bounds as C01: <= 3 tables, K-character holes, <= 3 symbolic selectors per instance',
]

# U+212B (ANGSTROM SIGN) and U+0301 (combining acute) are text that is not in a Unicode normal form: it must come back code point for code point
QNAME = Cls('NARROW', minus='"', plus='\u212b\u0301')
TEXT = Cls('ASCII', minus='\\', plus='é\u212b\u0301')


def _has_space_like(t):
    for ch in t:
        o = ord(ch)
        if not (((48 <= o) & (o <= 57)) | ((65 <= o) & (o <= 90)) | ((97 <= o) & (o <= 122)) | (o == 95)):
            return True
    return False


def _control_in_names(db):
    for t in db.tables:
        for c in t.columns:
            for ch in c.name:
                if ord(ch) < 32:
                    return True
    for e in db.enums:
        for it in e.items:
            for ch in it.name:
                if ord(ch) < 32:
                    return True
    return False


def _region_skip(db):
    """open findings of the unchanged tree, decided on the model that is being rendered (each only while its witness fails)"""
    if region_active('c13_triple_quote_in_text'):
        texts = [t.note.text for t in db.tables] + [s_.text for s_ in db.sticky_notes] + \
            [g.note.text for g in db.table_groups if g.note is not None] + ([db.project.note.text] if db.project is not None else [])
        for tx in texts:
            for i in range(len(tx) - 2):
                if tx[i] == "'" and tx[i + 1] == "'" and tx[i + 2] == "'":
                    return True
    for t in db.tables:
        for c in t.columns:
            if region_active('c02_falsy_default_dropped') and c.default is not None and (c.default == 0 or c.default == '' or c.default is False):
                return True
            if region_active('c13_default_bool_word') and isinstance(c.default, str) and c.default.lower() in ('true', 'false', 'null') \
                    and c.default != 'NULL':
                return True
            if region_active('c13_multiline_in_settings_or_raw_site') and docs.has_char(c.note.text, '\n'):
                return True
        for ix in t.indexes:
            if region_active('c13_multiline_in_settings_or_raw_site') and (docs.has_char(ix.note.text, '\n') or (ix.name and docs.has_char(ix.name, '\n'))):
                return True
    if db.project is not None:
        if region_active('c13_multiline_in_settings_or_raw_site') and any(docs.has_char(v, '\n') for v in db.project.items.values()):
            return True
    if region_active('c02_ref_column_name_trimmed'):
        for r in db.refs:
            for c in list(r.col1) + list(r.col2):
                n = c.name
                if len(n) == 0 or docs.has_char(n, ',') or n[0] == ' ' or n[0] == '(' or n[0] == ')' or n[-1] == ' ' or n[-1] == '(' or n[-1] == ')':
                    return True
    for e in db.enums:
        if region_active('c02_enum_name_with_dot') and (docs.has_char(e.name, '.') or docs.has_char(e.schema, '.')):
            return True
        for it in e.items:
            if region_active('c13_multiline_in_settings_or_raw_site') and docs.has_char(it.note.text, '\n'):
                return True
    return False


def _roundtrip(db, kw=None):
    kw = kw or {}
    if _region_skip(db):
        return ''
    reached()
    try:
        d1 = db.dbml
    except Exception:
        return 'rendering .dbml raised'
    try:
        db2 = docs.parse(d1, **kw)
    except Exception:
        return 'rendered .dbml does not re-parse'
    if content(db2) != content(db):
        return 'database re-parsed from its own .dbml has different content'
    try:
        d2 = db2.dbml
    except Exception:
        return 'rendering the re-parsed database raised'
    if d2 != d1:
        return 'rendering is not a fixpoint (text drifts between cycles)'
    return ''


def _rt_detail(db, kw=None):
    kw = kw or {}
    try:
        d1 = db.dbml
        db2 = docs.parse(d1, **kw)
        return {'dbml': d1, 'difference': first_difference(content(db2), content(db)), 'fixpoint': db2.dbml == d1}
    except Exception as e:
        return {'dbml': locals().get('d1'), 'error': f'{type(e).__name__}: {e}'}


def parsed(factory, params):
    """parse -> render -> parse -> render over a C01 scenario"""
    h1 = getattr(c01, factory)(**params)

    def body(a):
        doc, _ = h1.build(a)
        try:
            db = docs.parse(doc)
        except Exception:
            return ''          # judged by C01
        return _roundtrip(db)

    def describe(a):
        doc, _ = h1.build(a)
        try:
            return dict(_rt_detail(docs.parse(doc)), document=doc)
        except Exception as e:
            return {'document': doc, 'error': repr(e)}

    h = Harness(body, [(n, d) for n, d in h1.args], describe=describe, bounds=dict(h1.bounds, scenario=factory))
    return h


RESERVED = ['table', 'ref', 'note', 'enum', 'as', 'indexes', 'null', 'true', 'pk', 'unique', 'project', 'tablegroup', 'default', 'not null']


def api_names(K, which, fix=None):
    """API-built database whose names need quoting or are reserved words; which selects the named element kind"""
    args = [('rw', IntRange(0, len(RESERVED))), ('schema', IntRange(0, 3))] + hole_args('n', K, QNAME)

    def build(a):
        from pydbml import Database
        from pydbml.classes import Table, Column, Enum as E, EnumItem, Reference, TableGroup, Project, StickyNote, Index
        name = RESERVED[a['rw']] if a['rw'] < len(RESERVED) else text_of(a, 'n', K)
        db = Database()
        sch = ['public', 'my schema', 'PUBLIC', 'pub'][a['schema']]     # incl. look-alikes of the default schema
        en = E('status' if which != 'enum' else name, [EnumItem('on' if which != 'item' else name), EnumItem('off')], schema=sch)
        t1 = Table('users', schema=sch, alias='U' if which != 'alias' else None,
                   columns=[Column('id' if which != 'column' else name, 'int', pk=True), Column('st', en), Column('k2', 'int')])
        t2 = Table('orders', columns=[Column('uid', 'int'), Column('k2', 'int')])
        if which == 'alias':
            t2.alias = None
        db.add(en)
        db.add(t1)
        db.add(t2)
        # inline references first: DBML text cannot express an inline reference that follows a standalone one in db.refs
        db.add(Reference('-', [t2.columns[1]], [t1.columns[2]], inline=True))
        db.add(Reference('>', [t2.columns[0]], [t1.columns[0]], name=(name if which == 'ref' else 'fk1')))
        db.add(Reference('<>', [t2.columns[0], t2.columns[1]], [t1.columns[0], t1.columns[2]]))
        db.add(TableGroup(name if which == 'group' else 'g1', [t1, t2]))
        db.add(Project(name if which == 'project' else 'p1', items={'k': 'v'}))
        db.add(StickyNote(name if which == 'sticky' else 'n1', 'text'))
        if which == 'column':
            t1.add_index(Index([t1.columns[0]], unique=True))
        return db

    def body(a):
        return _roundtrip(build(a))

    return Harness(body, args, describe=lambda a: dict(_rt_detail(build(a)), which=which), bounds={'which': which, 'K': K, 'reserved': RESERVED},
                   fixed=fix)


TABLE_NAMES = ['a b', 'T.x', 'é', 'table']


def api_table_names(i):
    """table / schema / alias names (hashed by the database: enumerated)"""
    def build(a):
        from pydbml import Database
        from pydbml.classes import Table, Column, Reference
        nm = TABLE_NAMES[i]
        db = Database()
        al = [None, nm + '2', nm][a['alias']]        # an alias may equal the bare table name
        t1 = Table(nm, schema=(nm if a['schema'] else 'public'), alias=al, columns=[Column('id', 'int')])
        t2 = Table('other', columns=[Column('x', 'int')])
        db.add(t1)
        db.add(t2)
        r = Reference('>', [t2.columns[0]], [t1.columns[0]], inline=a['inline'])
        db.add(r)
        if a['flip']:
            r.type = '<>'          # attribute edits are part of building a model: a many-to-many reference is never inline
        return db

    def body(a):
        return _roundtrip(build(a))

    return Harness(body, [('schema', 'bool'), ('alias', IntRange(0, 2)), ('inline', 'bool'), ('flip', 'bool')],
                   describe=lambda a: dict(_rt_detail(build(a)), name=TABLE_NAMES[i]), bounds={'name': TABLE_NAMES[i]})


CRIT = Enum("a\n' \\")


def api_note(site, K=3):
    """API-built note texts over the critical alphabet (letters, newline, quote, blank, backslash), in normal form"""
    def build(a):
        from pydbml import Database
        from pydbml.classes import Table, Column, Project, StickyNote, TableGroup, Note
        from oracle.norm import norm
        txt = norm(text_of(a, 't', K))
        db = Database()
        t = Table('t', columns=[Column('c', 'int')], note=txt if site == 'table' else None)
        db.add(t)
        if site == 'sticky':
            db.add(StickyNote('n1', txt))
        elif site == 'project':
            db.add(Project('p', note=txt))
        elif site == 'group':
            db.add(TableGroup('g', [t], note=Note(txt)))
        return db

    def body(a):
        return _roundtrip(build(a))

    return Harness(body, hole_args('t', K, CRIT), describe=lambda a: dict(_rt_detail(build(a)), site=site), bounds={'site': site, 'K': K})


DEFAULTS = ['none', 'int', 'float', 'true', 'str', 'expr', 'NULL', 'zero', 'false', 'empty']


def api_column(dk, K, fix=None):
    """API-built column with every flag symbolic, default kind fanned out, note / default text holes"""
    args = [('pk', 'bool'), ('un', 'bool'), ('nn', 'bool'), ('ai', 'bool'), ('note', 'bool')] + hole_args('t', K, TEXT)

    def build(a):
        from pydbml import Database
        from pydbml.classes import Table, Column, Expression
        from oracle.norm import norm
        txt = text_of(a, 't', K)
        dv = {'none': None, 'int': 42, 'float': 2.5, 'true': True, 'str': txt, 'expr': Expression(txt.replace('`', '') + 'f()' + txt.replace('`', '')),
              'NULL': 'NULL', 'zero': 0, 'false': False, 'empty': ''}[dk]
        c = Column('c', 'varchar(10)', pk=a['pk'], unique=a['un'], not_null=a['nn'], autoinc=a['ai'], default=dv,
                   note=norm(txt) if a['note'] else None)
        db = Database()
        db.add(Table('t', columns=[c, Column('d', 'int[]')]))
        return db

    def body(a):
        return _roundtrip(build(a))

    return Harness(body, args, describe=lambda a: dict(_rt_detail(build(a)), default_kind=dk), bounds={'default': dk, 'K': K}, fixed=fix)


TYPE_SHAPES = ['a.b', 'a.b(1, 2)', 'a.b[]', 'a.b.c', 'a(1)[]', 'a b', 'a[]', 'a(x y)', 'a.b c', '1.5', 'a()', 'varchar(10)', 'é', 'a-b', 'a[1]',
               'a.(b)', '(a)']


def api_type(K):
    """column types: a list of shapes mixing dots, arguments and brackets (fanned by a selector) and a K-character type over the
    characters that decide between the bare and the quoted spelling"""
    from harness.common import Enum as En, IntRange as IR
    args = [('shape', IR(0, len(TYPE_SHAPES))), ('second', 'bool')] + hole_args('y', K, En('a.()[] 1'))

    def build(a):
        from pydbml import Database
        from pydbml.classes import Table, Column
        typ = text_of(a, 'y', K) if a['shape'] == len(TYPE_SHAPES) else TYPE_SHAPES[a['shape']]
        cols = [Column('c', typ, not_null=True)]
        if a['second']:
            cols.append(Column('d', typ, default=1))
        db = Database()
        db.add(Table('t', columns=cols))
        return db

    def body(a):
        return _roundtrip(build(a))

    return Harness(body, args, describe=lambda a: dict(_rt_detail(build(a))), bounds={'K': K, 'shapes': TYPE_SHAPES})


def instances(tier):
    out = []

    def add(name, factory, params, timeout=280, **kw):
        d = {'name': name, 'factory': factory, 'params': params, 'timeout': timeout, 'native_limit': 80}
        d.update(kw)
        out.append(d)

    quick = tier == 'quick'
    T1 = 280 if quick else 3000
    src = c01.instances(tier)
    for k, i in enumerate(src):
        if i['factory'] in ('equivalence', 'ref_order'):
            continue
        if quick and k % 4 != 0:
            continue
        p = i['params']
        vac = []
        if i['factory'] == 'column':
            if p['dkind'] == 'false':
                vac.append('c02_falsy_default_dropped')
        if i['factory'] == 'table' and p['note_form'] == 'triple':
            pass
        pp_ = dict(p)
        if quick and (i['factory'] in ('others', 'table', 'index') or (i['factory'] == 'column' and p.get('quoted'))):
            pp_['K'] = 1
        if quick and i['factory'] == 'table':
            pp_['fix'] = dict(p['fix'], h_alias=True)      # three parses per path: one selector fewer than in C01
        add('parsed/' + i['name'], 'parsed', {'factory': i['factory'], 'params': pp_}, T1 if quick else 6000, vacuous_if=vac)
    if not any(i['name'] == 'parsed/numbers' for i in out):
        add('parsed/numbers', 'parsed', {'factory': 'numbers', 'params': {'case': 'same'}}, T1)
    for which in ('column', 'item', 'enum', 'ref', 'group', 'project', 'sticky'):
        fx = None if (which == 'enum' or not quick) else {'schema': 1 if which in ('column', 'item') else 0}
        add(f'api/names/{which}/K{1 if quick else 2}', 'api_names', {'K': 1 if quick else 2, 'which': which, 'fix': fx}, T1)
    for i in range(len(TABLE_NAMES)):
        add(f'api/table_names/{i}', 'api_table_names', {'i': i}, T1)
    for site in ('table', 'sticky', 'project', 'group'):
        add(f'api/note/{site}/K{3 if quick else 4}', 'api_note', {'site': site, 'K': 3 if quick else 4}, T1)
    add(f'api/type/K{2 if quick else 3}', 'api_type', {'K': 2 if quick else 3}, T1)
    fixes = [{'pk': True, 'un': False}, {'pk': False, 'un': True}]
    for j, dk in enumerate(DEFAULTS):
        vac = ['c02_falsy_default_dropped'] if dk in ('zero', 'false', 'empty') else []
        for f in ([fixes[j % 2]] if quick else fixes):
            add(f"api/column/{dk}/{'pk' if f['pk'] else 'un'}", 'api_column', {'dk': dk, 'K': 1 if quick else 2, 'fix': f}, T1, vacuous_if=vac)
    return out
