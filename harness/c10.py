"""C10 - Renderings always reflect the current state of the model after edits."""
from harness.common import Harness, IntRange, Cls, hole_args, text_of, reached, region_active
from oracle.content import content
from oracle.rebuild import rebuild

ASSUMPTIONS = [
    'edit histories of depth D (quick 2, thorough 3) from a menu of 22 in-place edits applied to an API-built database with two tables, '
    'an enum-typed column, indexes, three references, a group, notes; new column / item names are K-character holes',
    'the oracle rebuilds a fresh database from the plain content of the edited one through the public constructors and compares '
    '.dbml and .sql of the database and of every table, enum and reference textually',
]

NAME = Cls('NARROW', minus='"\'\\{}')   # quote / brace characters fork every renderer three ways and are covered by C13 / C04

EDITS = [
    'rename_table', 'move_schema', 'rename_column', 'rename_enum', 'retype_column', 'set_pk', 'set_default', 'set_note', 'set_alias',
    'flip_ref_kind', 'toggle_ref_inline', 'name_ref', 'add_column', 'add_index', 'add_enum_item', 'remove_index', 'rename_target_table',
    'rename_ref_column', 'rename_enum_item', 'unset_flags', 'retype_to_enum', 'set_table_note',
    'm2m_inline_on', 'm2m_to_many_to_one', 'kind_to_m2m', 'add_twin_index', 'remove_last_index', 'retype_ref_column', 'assign_note_text',
]

# independent record of what the edits intend for each reference: (kind, inline flag as last assigned)
REF0 = [['>', True], ['-', False], ['<>', False]]


def _base():
    from pydbml import Database
    from pydbml.classes import Table, Column, Enum, EnumItem, Reference, TableGroup, Index, Expression
    db = Database()
    en = Enum('status', [EnumItem('on'), EnumItem('off', note='x')], schema='es')
    t1 = Table('users', alias='U', columns=[Column('id', 'int', pk=True, autoinc=True), Column('st', en, not_null=True),
                                          Column('name', 'varchar(20)', unique=True, default='anon', note='cn')], note='tn')
    t1.add_index(Index([t1.columns[2]], unique=True, name='ix1'))
    t1.add_index(Index([t1.columns[0], Expression('lower(name)')], type='hash'))
    t2 = Table('orders', schema='shop', columns=[Column('id', 'int', pk=True), Column('uid', 'int'), Column('uname', 'varchar(20)')])
    db.add(en)
    db.add(t1)
    db.add(t2)
    db.add(Reference('>', [t2.columns[1]], [t1.columns[0]], inline=True))
    db.add(Reference('-', [t2.columns[2]], [t1.columns[2]], name='fk_name', on_delete='cascade'))
    db.add(Reference('<>', [t2.columns[0]], [t1.columns[0]]))
    db.add(TableGroup('g', [t1, t2]))
    return db


PARSED_DOC = (
    "Enum es.status {\n  on\n  off [note: 'x']\n}\n"
    "Enum status {\n  other\n}\n"                      # the same enum name in another schema, declared later
    "Table users as U [note: 'tn'] {\n  id int [pk, increment]\n  st es.status [not null]\n"
    "  name varchar(20) [unique, default: 'anon', note: 'cn']\n"
    "  indexes {\n    name [unique, name: 'ix1']\n    (id, `lower(name)`) [type: hash]\n  }\n}\n"
    "Table shop.orders {\n  id int [pk]\n  uid int [ref: > U.id]\n  uname varchar(20)\n}\n"
    "Ref fk_name: shop.orders.uname - users.name [delete: cascade]\n"
    "Ref: shop.orders.id <> users.id\n"
    "TableGroup g {\n  users\n  shop.orders\n}\n"
)


def _base_parsed():
    """the same shapes obtained from the parser (plus a second enum of the same name in another schema)"""
    from harness import docs
    from crosshair.tracers import NoTracing, is_tracing
    # the document is concrete: it is parsed by the real parser with CrossHair's tracer paused (no symbolic value is involved);
    # every path gets a database of its own
    if is_tracing():
        with NoTracing():
            return docs.parse(PARSED_DOC)
    return docs.parse(PARSED_DOC)


def _apply(db, op, nm, step):
    from pydbml.classes import Column, Index, Note, EnumItem
    t1, t2 = db.tables[0], db.tables[1]
    en = db.enums[0]
    r0, r1, r2 = db.refs
    if op == 'rename_table':
        t1.name = 'people'
    elif op == 'move_schema':
        t1.schema = 'core'
    elif op == 'rename_column':
        t1.columns[2].name = 'n_' + nm
    elif op == 'rename_enum':
        en.name = 'state'
        en.schema = 'public'
    elif op == 'retype_column':
        t1.columns[2].type = 'text'
    elif op == 'set_pk':
        t1.columns[2].pk = True
    elif op == 'set_default':
        t1.columns[0].default = 7
        t2.columns[1].default = 'dflt'
    elif op == 'set_note':
        t1.columns[0].note = Note('note ' + nm)
    elif op == 'set_alias':
        t1.alias = 'People'
        t2.alias = 'O'
    elif op == 'flip_ref_kind':
        r0.type = '<'
        r1.type = '>'
    elif op == 'toggle_ref_inline':
        r0.inline = False
        r1.inline = True
    elif op == 'name_ref':
        r0.name = 'fk_' + nm
        r0.on_update = 'set null'
        r1.name = None
        r1.on_delete = None
    elif op == 'add_column':
        t2.add_column(Column('c_' + nm + str(step), 'int', not_null=True))
    elif op == 'add_index':
        t2.add_index(Index([t2.columns[1]], name='i_' + nm))
    elif op == 'add_enum_item':
        en.add_item(EnumItem('i_' + nm + str(step)))
    elif op == 'remove_index':
        if t1.indexes:
            t1.delete_index(0)
    elif op == 'rename_target_table':
        t2.name = 'purchases'
    elif op == 'rename_ref_column':
        t1.columns[0].name = 'k_' + nm
        t2.columns[1].name = 'u_' + nm
    elif op == 'rename_enum_item':
        en.items[0].name = 'e_' + nm
    elif op == 'unset_flags':
        t1.columns[0].pk = False
        t1.columns[0].autoinc = False
        t1.columns[1].not_null = False
        t1.columns[2].unique = False
        t1.columns[2].default = None
    elif op == 'retype_to_enum':
        t2.columns[2].type = en
    elif op == 'set_table_note':
        t2.note = Note('tn2 ' + nm)
        t1.header_color = '#aabbcc'
    elif op == 'm2m_inline_on':
        r2.inline = True
    elif op == 'm2m_to_many_to_one':
        r2.type = '>'
    elif op == 'kind_to_m2m':
        r0.type = '<>'
    elif op == 'add_twin_index':
        t1.add_index(Index([t1.columns[2]], unique=True, name='ix1'))     # equal to the first index of t1
    elif op == 'remove_last_index':
        if t1.indexes:
            t1.delete_index(len(t1.indexes) - 1)
    elif op == 'assign_note_text':
        t1.note.text = 'first\n  \n\t\nlast ' + nm
        t1.columns[2].note.text = 'col\n \nnote'
        t2.columns[0].note.text = 'key ' + nm          # a column that was created without a note
    elif op == 'retype_ref_column':
        t1.columns[0].type = 'bigint'
        t2.schema = 'store'


def _track_indexes(idx, op):
    """independent record of the index list of the first table (labels in order), updated from the edit's intent"""
    if op == 'remove_index':
        if idx:
            idx.pop(0)
    elif op == 'add_twin_index':
        idx.append('ix1')
    elif op == 'remove_last_index':
        if idx:
            idx.pop()


def _track(intent, op):
    if op == 'flip_ref_kind':
        intent[0][0] = '<'
        intent[1][0] = '>'
    elif op == 'toggle_ref_inline':
        intent[0][1] = False
        intent[1][1] = True
    elif op == 'm2m_inline_on':
        intent[2][1] = True
    elif op == 'm2m_to_many_to_one':
        intent[2][0] = '>'
    elif op == 'kind_to_m2m':
        intent[0][0] = '<>'


def _known_skip(db):
    if region_active('c02_falsy_default_dropped'):
        pass
    return False


def edits(D, first=-1, K=1, thorough_elements=False, second=None, source='api'):
    """second: optional list of edit codes the second edit is drawn from (thorough tier, D=3: keeps the history count affordable)"""
    n = len(EDITS)
    args = [(f'o{i}', IntRange(0, (len(second) if (second and i == 1) else n) - 1)) for i in range(D) if not (i == 0 and first >= 0)] + hole_args('n', K, NAME)

    def run(a):
        db = _base() if source == 'api' else _base_parsed()
        db.sql                          # a first rendering before any edit
        nm = text_of(a, 'n', K)
        seq = []
        intent = [list(x) for x in REF0]
        idx = ['ix1', 'hash']
        for step in range(D):
            code = first if (step == 0 and first >= 0) else a[f'o{step}']
            if second and step == 1:
                code = second[code]
            seq.append(EDITS[code])
            if step > 0:
                db.sql                   # a rendering between edits must leave nothing behind (cached orders, join tables ...)
            _apply(db, EDITS[code], nm, step)
            _track(intent, EDITS[code])
            _track_indexes(idx, EDITS[code])
        db._vp_intent = intent
        db._vp_idx = idx
        return db, seq

    def body(a):
        db, seq = run(a)
        try:
            fresh = rebuild(content(db))
        except Exception:
            return 'oracle could not rebuild the edited model'
        reached()
        for r, (kind, inl) in zip(db.refs, db._vp_intent):
            if r.type != kind or bool(r.inline) != (inl and kind != '<>'):
                return 'a reference does not show the kind / inline-ness it was last given'
        for c in (db.tables[0].columns[1], db.tables[1].columns[1], db.tables[1].columns[2]):
            if c.note is not None and c.note.text:
                return 'a column that no edit gave a note to shows a note'
        if db.tables[0].columns[1].type is not db.enums[0]:
            return 'the enum-typed column does not hold the Enum object of the database'
        if [ix.name or ix.type for ix in db.tables[0].indexes] != db._vp_idx:
            return 'the index list of a table is not what the add / delete edits intended (wrong index removed, or order changed)'
        try:
            if db.dbml != fresh.dbml:
                return '.dbml of the edited database differs from that of a freshly built database with the same content'
            if db.sql != fresh.sql:
                return '.sql of the edited database differs from that of a freshly built database with the same content'
            if thorough_elements:
                for x, y in zip(db.tables, fresh.tables):
                    if x.dbml != y.dbml or x.sql != y.sql:
                        return 'table rendering is stale after edits'
                for x, y in zip(db.enums, fresh.enums):
                    if x.dbml != y.dbml or x.sql != y.sql:
                        return 'enum rendering is stale after edits'
            for x, y in zip(db.refs, fresh.refs):
                if x.dbml != y.dbml or x.sql != y.sql:
                    return 'reference rendering is stale after edits'
            for x, y in zip(db.table_groups, fresh.table_groups):
                if x.dbml != y.dbml:
                    return 'table group rendering is stale after edits'
        except Exception as e:
            return 'rendering after legal edits raised ' + type(e).__name__
        return ''

    def describe(a):
        db, seq = run(a)
        fresh = rebuild(content(db))
        return {'edits': seq, 'name_fragment': ''.join(chr(a[f'n{i}']) for i in range(K)), 'dbml_edited': db.dbml, 'dbml_fresh': fresh.dbml,
                'sql_equal': db.sql == fresh.sql}

    return Harness(body, args, describe=describe, bounds={'D': D, 'edits': EDITS, 'K': K, 'base database': source, 'second_edit_from': [EDITS[c] for c in second] if second else 'all'})


def instances(tier):
    out = []
    quick = tier == 'quick'
    if quick:
        for f in range(len(EDITS)):
            out.append({'name': f'edits/D2/first_{EDITS[f]}', 'factory': 'edits', 'params': {'D': 2, 'first': f, 'K': 1}, 'timeout': 280, 'native_limit': 120})
        for e in ('rename_enum', 'assign_note_text', 'rename_table', 'add_enum_item'):      # the same on a database that came from the parser
            out.append({'name': f'edits/parsed/D2/first_{e}', 'factory': 'edits', 'params': {'D': 2, 'first': EDITS.index(e), 'K': 1, 'source': 'parsed'},
                        'timeout': 280, 'native_limit': 120})
        return out
    # thorough: every history of two edits with the element renderings compared as well, and histories of three edits whose
    # middle edit is one of four that leave state behind for the third (rename, inline / kind change, index list edit).
    # All 29^3 histories were measured at ~6100 s per first edit (2 of 29 completed, both confirmed): not affordable here.
    core = [EDITS.index(x) for x in ('rename_table', 'toggle_ref_inline', 'kind_to_m2m', 'add_twin_index')]
    for f in range(len(EDITS)):
        out.append({'name': f'edits/D2/elements/first_{EDITS[f]}', 'factory': 'edits', 'params': {'D': 2, 'first': f, 'K': 1, 'thorough_elements': True},
                    'timeout': 1500, 'native_limit': 120})
    for f in range(len(EDITS)):
        out.append({'name': f'edits/parsed/D2/elements/first_{EDITS[f]}', 'factory': 'edits',
                    'params': {'D': 2, 'first': f, 'K': 1, 'thorough_elements': True, 'source': 'parsed'}, 'timeout': 1500, 'native_limit': 120})
    for f in range(len(EDITS)):
        out.append({'name': f'edits/D3/first_{EDITS[f]}', 'factory': 'edits', 'params': {'D': 3, 'first': f, 'K': 1, 'thorough_elements': True, 'second': core},
                    'timeout': 4000, 'native_limit': 200})
    return out
