"""C18 - SQL creates a table before any table that references it inline."""
import itertools

from harness.common import Harness, IntRange, reached, region_active
from oracle import ddl

ASSUMPTIONS = [
    'n tables (quick 3, thorough 4), every acyclic inline-reference graph over them (symbolic adjacency booleans), every insertion '
    'order (symbolic permutation code); one reference kind per instance or a symbolic kind per edge',
]


def _acyclic(n, edges):
    """edges: list of (i, j, present) ; Kahn-style elimination on (possibly symbolic) booleans"""
    alive = [True] * n
    for _ in range(n):
        if not any(alive):
            return True
        progress = False
        for v in range(n):
            if not alive[v]:
                continue
            has_out = False
            for (i, j, p) in edges:
                if i == v and alive[j] and p:
                    has_out = True
            if not has_out:
                alive[v] = False
                progress = True
        if not progress:
            return False
    return not any(alive)


def order(n, kind, same_names=False, fix=None, bare=False):
    """kind: '>' (holder on the left), '<' (holder on the right), '-' , or 'mix' (symbolic per edge)"""
    pairs = [(i, j) for i in range(n) for j in range(n) if i != j]
    perms = list(itertools.permutations(range(n)))
    args = [(f'e{i}{j}', 'bool') for i, j in pairs] + [('perm', IntRange(0, len(perms) - 1))]
    if kind == 'mix':
        args += [(f'k{i}{j}', IntRange(0, 2)) for i, j in pairs]

    def build(a):
        from pydbml import Database
        from pydbml.classes import Table, Column, Reference
        if same_names:
            # same bare name in different schemas: the table is identified by schema + name, not by name alone
            tables = [Table('t', schema=f's{i}', columns=[Column('id', 'int'), Column('x', 'int')]) for i in range(n)]
        else:
            tables = [Table(f't{i}', columns=[Column('id', 'int'), Column('x', 'int')]) for i in range(n)]
        db = Database()
        for idx in perms[a['perm']]:
            db.add(tables[idx])
        if bare:
            db.add(Table('nocols', schema='ops'))      # a table without columns can only be built through the API: still one of the tables
        held = [0] * n        # number of '>' / '<' inline references whose FOREIGN KEY clause lives in table i
        edges = []
        refs = []
        for i, j in pairs:
            if a[f'e{i}{j}']:
                k = kind if kind != 'mix' else ('>', '<', '-')[a[f'k{i}{j}']]
                # holder i references target j
                if k == '<':
                    r = Reference('<', tables[j].columns[0], tables[i].columns[1], inline=True)
                else:
                    r = Reference(k, tables[i].columns[1], tables[j].columns[0], inline=True)
                db.add(r)
                refs.append((r, i, k))
                if k != '-':
                    held[i] += 1
                edges.append((i, j))
        if same_names:
            held = [sum(held)] * n     # the unchanged tree counts by bare name (only used by the known-finding region below)
        return db, tables, edges, held, refs

    def body(a):
        if not _acyclic(n, [(i, j, a[f'e{i}{j}']) for i, j in pairs]):
            return ''
        db, tables, edges, held, refs = build(a)
        try:
            sql1 = db.sql
            sql2 = db.sql
        except Exception:
            return '.sql raised'
        reached()
        if sql1 != sql2:
            return 'rendering twice gives different text'
        if refs and kind != 'mix' and a['perm'] % 3 != 1:
            # "depends only on the model": edit one reference in place after rendering, compare with a freshly built equal model
            # (for four of the six insertion orders: the edits cost four more renderings per path)
            r0, _, k0 = refs[0]
            r0.inline = False
            a2 = dict(a)
            db_f, _, _, _, refs_f = build(a2)
            refs_f[0][0].inline = False
            if db.sql != db_f.sql:
                return 'after an in-place edit the rendering differs from that of a freshly built identical model (stale order)'
            r0.inline = True
            # ... and the same for an edit that moves the FOREIGN KEY to the other table (the kind is flipped)
            if a['perm'] % 3 == 0:
                flipped = '>' if k0 == '<' else '<'
                r0.type = flipped
                db_g, _, _, _, refs_g = build(a2)            # a model that is given the final kind before anything is rendered
                refs_g[0][0].type = flipped
                if db.sql != db_g.sql:
                    return 'after a reference changed its kind the rendering differs from that of a freshly built identical model (stale key holder)'
                r0.type = k0
        r = ddl.read_or_none(sql1)
        if r is None:
            return 'DDL not readable'
        created = [s[1][-1] for s in r[0] if s[0] == 'table']
        created = [s[1] for s in r[0] if s[0] == 'table']
        names = [(f's{i}', 't') if same_names else (f't{i}',) for i in range(n)]
        if bare:
            if created.count(('ops', 'nocols')) != 1:
                return 'CREATE TABLE statements are not a permutation of the tables (the table without columns is missing or repeated)'
            created = [x for x in created if x != ('ops', 'nocols')]
        if len(created) != n or any(created.count(x) != 1 for x in names):
            return 'CREATE TABLE statements are not a permutation of the tables'
        pos = {x: created.index(x) for x in names}
        ins = {names[idx]: p for p, idx in enumerate(perms[a['perm']])}
        # the FOREIGN KEY clauses read from the script are exactly the references each table holds (no clause in any other table)
        for i in range(n):
            st = [s for s in r[0] if s[0] == 'table' and s[1] == names[i]][0]
            got = sorted(fk[2] for fk in st[4])
            want = sorted(names[j] for (h, j) in edges if h == i)
            if got != want:
                return 'the FOREIGN KEY clauses of a CREATE TABLE are not exactly the inline references that table holds'
        for i, j in edges:
            holder, target = names[i], names[j]
            if pos[target] < pos[holder]:
                continue
            if region_active('c18_counting_heuristic'):
                # known: target is only placed first when it holds more counted inline refs, or as many and was added earlier
                if not (held[j] > held[i] or (held[j] == held[i] and ins[target] < ins[holder])):
                    continue
            return 'a table is created before the table its inline FOREIGN KEY references'
        return ''

    def describe(a):
        return {'tables': n, 'insertion_order': [f't{i}' for i in perms[a['perm']]],
                'inline_refs': [f"t{i} {kind if kind != 'mix' else ('>', '<', '-')[a[f'k{i}{j}']]} t{j}" for i, j in pairs if a[f'e{i}{j}']]}

    return Harness(body, args, describe=describe, bounds={'n': n, 'kind': kind, 'same_names': same_names}, fixed=fix)


def instances(tier):
    out = []
    if tier == 'quick':
        for k in ('>', '<', '-'):
            out.append({'name': f'order/n3/{k}', 'factory': 'order', 'params': {'n': 3, 'kind': k}, 'timeout': 280, 'native_limit': 300})
        out.append({'name': 'order/n2/mix', 'factory': 'order', 'params': {'n': 2, 'kind': 'mix'}, 'timeout': 200, 'native_limit': 100})
        # four tables, edges restricted to the family  t1 -> t0, t2 -> t1, t3 -> t1  (a holder with more incoming edges than its target)
        off = {f'e{i}{j}': False for i in range(4) for j in range(4) if i != j and (i, j) not in ((1, 0), (2, 1), (3, 1))}
        for k in ('-', '>'):
            out.append({'name': f'order/n4/{k}/star', 'factory': 'order', 'params': {'n': 4, 'kind': k, 'fix': off}, 'timeout': 280, 'native_limit': 200})
        out.append({'name': 'order/n3/>/same_names', 'factory': 'order', 'params': {'n': 3, 'kind': '>', 'same_names': True}, 'timeout': 280,
                    'native_limit': 300})
        out.append({'name': 'order/n2/mix/with_empty_table', 'factory': 'order', 'params': {'n': 2, 'kind': 'mix', 'bare': True}, 'timeout': 200,
                    'native_limit': 100})
    else:
        # n = 4: every DAG is isomorphic to one whose edges go from a higher to a lower index; those 6 edges are symbolic, the insertion
        # order (24 permutations) is symbolic, the 6 upward edges are fixed to absent: 64 x 24 paths per kind
        up = {f'e{i}{j}': False for i in range(4) for j in range(4) if i < j}
        for k in ('>', '<', '-'):
            out.append({'name': f'order/n3/{k}', 'factory': 'order', 'params': {'n': 3, 'kind': k}, 'timeout': 1200, 'native_limit': 400})
            out.append({'name': f'order/n4/{k}/downward', 'factory': 'order', 'params': {'n': 4, 'kind': k, 'fix': up}, 'timeout': 6000,
                        'path_timeout': 120, 'native_limit': 1500})
        out.append({'name': 'order/n3/mix', 'factory': 'order', 'params': {'n': 3, 'kind': 'mix'}, 'timeout': 6000, 'native_limit': 2000})
        out.append({'name': 'order/n3/>/with_empty_table', 'factory': 'order', 'params': {'n': 3, 'kind': '>', 'bare': True}, 'timeout': 1200, 'native_limit': 400})
        for k in ('>', '<', '-'):
            out.append({'name': f'order/n3/{k}/same_names', 'factory': 'order', 'params': {'n': 3, 'kind': k, 'same_names': True},
                        'timeout': 1200, 'native_limit': 400})
    return out
