"""C15 - Arbitrary properties are honoured exactly when enabled."""
from harness.common import Harness, IntRange, Cls, Enum, hole_args, text_of, reached, region_active
from harness import docs
from oracle.content import content

ASSUMPTIONS = [
    'at most two properties per site (table body, column settings); keys from a small enumerated set (they are dict keys), values are '
    'single-line K-character holes; mixed with ordinary settings, notes and an index block in several orders, one-line and multi-line',
]

VAL = Cls('NARROW', minus='\\')
CRIT = Enum("a'\\\" ")      # apostrophe, backslash, double quote, blank: the characters the quoting helpers care about
KEYS = ['k', 'key_2', 'note2', 'Pk', 'Ref', 'REF']      # Ref / REF: keys are stored exactly; only the lower-case 'ref:' is the inline reference keyword
KEYWORD_PREFIXED = ('note2', 'Pk')


def document(layout, K=1, fix=None, crit=False):
    """layout: 'one' | 'multi' ; presence / position selectors symbolic"""
    args = [('tp', IntRange(0, 2)), ('cp', IntRange(0, 2)), ('cpos', IntRange(0, 2)), ('tpos', IntRange(0, 2)), ('k1', IntRange(0, 5))] + \
        hole_args('v', K, CRIT if crit else VAL)

    def build(a):
        v = text_of(a, 'v', K)
        k1 = KEYS[a['k1']]
        k2 = KEYS[(a['k1'] + 1) % 6]
        cprops = [(k1, v), (k2, 'second')][:a['cp']]
        tprops = [(k2, v), (k1, 'x y')][:a['tp']]
        ordinary = ['pk', "note: 'cn'", 'default: 5']
        cst = list(ordinary)
        ptxt = [k + ': ' + docs.q_single(val) for k, val in cprops]
        pos = a['cpos']
        cst = cst[:pos] + ptxt + cst[pos:]
        sep = ',\n      ' if layout == 'multi' else ', '
        sett = (' [\n      ' + sep.join(cst) + '\n    ]') if layout == 'multi' else (' [' + sep.join(cst) + ']')
        parts = ['  id int' + sett + '\n  other text unique pk\n', "  Note: 'tn'\n", '  indexes {\n    id [unique]\n  }\n']
        tp = ''.join('  ' + k + ': ' + docs.q_double(val) + '\n' for k, val in tprops)
        parts = parts[:a['tpos']] + ([tp] if tp else []) + parts[a['tpos']:]
        doc = 'Table t {\n' + ''.join(parts) + '}\n'
        exp_table = ('table', 'public', 't', None, None, 'tn', None, tuple(tprops),
                     (('col', 'id', ('str', 'int'), True, False, False, False, ('int', 5), 'cn', None, tuple(cprops)),
                      ('col', 'other', ('str', 'text'), True, True, False, False, ('none',), '', None, ())),
                     (('idx', (('col', 'id'),), None, True, None, False, '', None),))
        return doc, (None, (), (exp_table,), (), (), ()), bool(cprops or tprops), [k for k, _ in cprops + tprops]

    def body(a):
        import pyparsing
        doc, exp, has, used = build(a)
        if region_active('c15_key_with_keyword_prefix') and any(k in KEYWORD_PREFIXED for k in used):
            return ''        # keys note2 / Pk (a keyword is a prefix of the key): open finding
        # option on
        try:
            db = docs.parse(doc, allow_properties=True)
        except Exception:
            return 'document with properties rejected although the option is enabled'
        reached()
        if content(db) != exp:
            return 'properties (or the rest of the table) not stored exactly as declared'
        if db.allow_properties is not True:
            return 'resulting database does not have the option enabled'
        d1 = db.dbml
        try:
            db2 = docs.parse(d1, allow_properties=True)
        except Exception:
            return 'rendered DBML with properties does not re-parse'
        if content(db2) != exp:
            return 'properties do not round-trip'
        # flag flips switch rendering
        db.allow_properties = False
        d_off = db.dbml
        try:
            c_off = content(docs.parse(d_off))
        except Exception:
            return 'DBML rendered with the flag off is not plain DBML'
        t = exp[2][0]
        plain_t = t[:7] + ((),) + (tuple(c[:10] + ((),) for c in t[8]),) + t[9:]
        if c_off != (None, (), (plain_t,), (), (), ()):
            return 'properties rendered although the database flag is off (or something else was lost)'
        db.allow_properties = True
        if db.dbml != d1:
            return 'switching the flag back does not restore the rendering'
        # option off
        try:
            db_off = docs.parse(doc)
        except pyparsing.ParseBaseException:
            if not has:
                return 'a document without properties is rejected when the option is off'
            return ''
        except Exception:
            return 'with the option off the property syntax raises something else than a syntax error'
        if has:
            return 'property syntax accepted although the option is off'
        # no properties: the option changes nothing
        if content(db_off) != exp or db_off.allow_properties is not False:
            return 'enabling the option changes how a document without properties is parsed'
        if db_off.dbml != d1 or db_off.sql != db.sql:
            return 'enabling the option changes how a document without properties is rendered'
        return ''

    return Harness(body, args, describe=lambda a: {'document': build(a)[0]}, bounds={'layout': layout, 'K': K, 'keys': KEYS}, fixed=fix)


def file_routes(K=1):
    """the option given together with a Path or an open text file (I/O stubbed as in C12) works like with a string"""
    args = [('has', 'bool'), ('route', IntRange(1, 2))] + hole_args('v', K, VAL)

    def body(a):
        import pydbml.parser.parser as pp_mod
        from harness.c12 import _routes
        v = text_of(a, 'v', K)
        doc = "Table t {\n  id int [pk" + ((", k: " + docs.q_single(v)) if a['has'] else '') + "]\n" + (("  tk: " + docs.q_single(v) + "\n") if a['has'] else '') + "}\n"
        calls = []
        try:
            rts = _routes(doc, calls, allow_properties=True)
            try:
                ref = rts[0][1]()
                db = rts[a['route']][1]()
            except Exception:
                return 'document rejected although the option is enabled'
        finally:
            if 'open' in pp_mod.__dict__:
                del pp_mod.open
        reached()
        if db.allow_properties is not True:
            return 'database built from a file source does not have the option enabled'
        if content(db) != content(ref):
            return 'file source and string source give different results with the option enabled'
        if a['has'] and (db.tables[0].properties != {'tk': v} or db.tables[0].columns[0].properties != {'k': v}):
            return 'properties not stored when the source is a file'
        return ''

    return Harness(body, args, describe=lambda a: dict(a), bounds={'K': K})


def api_flag(K=1):
    """objects carrying properties inside a database built through the API: rendered exactly when the flag is on"""
    args = [('flag0', 'bool')] + hole_args('v', K, VAL)

    def body(a):
        from pydbml import Database
        from pydbml.classes import Table, Column
        v = text_of(a, 'v', K)
        t = Table('t', columns=[Column('c', 'int', properties={'ck': v})], properties={'tk': v})
        a = dict(a, detached=False)
        db = Database(allow_properties=a['flag0'])
        db.add(t)
        reached()
        text = t.dbml
        has = ("tk: " in text) or ("ck: " in text)
        want = a['flag0'] and not a['detached']
        if has != want:
            return 'properties rendered although disabled' if has else 'properties not rendered although enabled'
        if not a['detached']:
            db.allow_properties = not a['flag0']
            t2 = t.dbml
            has2 = ("tk: " in t2) and ("ck: " in t2)
            none2 = ("tk: " not in t2) and ("ck: " not in t2)
            if a['flag0'] and not none2:
                return 'switching the flag off did not stop rendering properties'
            if (not a['flag0']) and not has2:
                return 'switching the flag on did not start rendering properties'
            if db.dbml != t2:
                return 'database and table rendering disagree'
        return ''

    return Harness(body, args, describe=lambda a: dict(a), bounds={'K': K})


def in_place(K=1):
    """a property added in place to one column / table of one database is stored on that object only: other columns, other
    tables, databases parsed later (with or without the option) and API-built objects show none"""
    args = [('first_on', 'bool'), ('later_on', 'bool'), ('api_first', 'bool')] + hole_args('v', K, VAL)
    DOC = "Table t {\n  a int\n  b int [unique]\n}\nTable u {\n  c int\n}\n"

    def body(a):
        from pydbml import Database
        from pydbml.classes import Table, Column
        v = text_of(a, 'v', K)
        try:
            if a['api_first']:
                db1 = Database(allow_properties=a['first_on'])
                db1.add(Table('t', columns=[Column('a', 'int'), Column('b', 'int', unique=True)]))
                db1.add(Table('u', columns=[Column('c', 'int')]))
            else:
                db1 = docs.parse(DOC, allow_properties=a['first_on'])
        except Exception:
            return 'valid document rejected'
        db1.tables[0].columns[0].properties['k'] = v          # the idiom of docs/properties.md
        db1.tables[0].properties['tk'] = v
        reached()
        if db1.tables[0].columns[0].properties != {'k': v} or db1.tables[0].properties != {'tk': v}:
            return 'a property added in place is not stored on its object'
        for o in (db1.tables[0].columns[1], db1.tables[1].columns[0], db1.tables[1]):
            if len(o.properties) != 0:
                return 'a property added to one object shows up on another object of the same database'
        try:
            db2 = docs.parse(DOC, allow_properties=a['later_on'])
        except Exception:
            return 'valid document rejected'
        for t in db2.tables:
            if len(t.properties) != 0 or any(len(c.properties) != 0 for c in t.columns):
                return 'a document without properties parsed later carries properties'
        if 'k: ' in db2.dbml:
            return 'a document without properties renders properties'
        c3 = Column('z', 'int')
        t3 = Table('w', columns=[c3])
        if len(c3.properties) != 0 or len(t3.properties) != 0:
            return 'a new object built through the API carries properties'
        return ''

    return Harness(body, args, describe=lambda a: dict(a), bounds={'K': K})


def instances(tier):
    quick = tier == 'quick'
    T1 = 280 if quick else 3000
    out = []
    fixes = [{'cpos': 0, 'tpos': 1, 'k1': 0}, {'cpos': 2, 'tpos': 2, 'k1': 0}, {'cpos': 1, 'tpos': 0, 'k1': 3}, {'cpos': 1, 'tpos': 1, 'k1': 4, 'tp': 1}]
    for j, f in enumerate(fixes):
        for layout in ('one', 'multi'):
            if quick and layout == 'multi' and j != 0:
                continue
            out.append({'name': f'document/{layout}/f{j}', 'factory': 'document', 'params': {'layout': layout, 'K': 1 if quick else 2, 'fix': f},
                        'timeout': T1, 'native_limit': 80})
    out.append({'name': 'document/one/crit/K2', 'factory': 'document', 'params': {'layout': 'one', 'K': 2, 'fix': dict(fixes[1], tp=1, cp=1), 'crit': True},
                'timeout': T1, 'native_limit': 80})
    out.append({'name': 'file_routes', 'factory': 'file_routes', 'params': {'K': 1}, 'timeout': T1, 'native_limit': 60})
    out.append({'name': 'in_place', 'factory': 'in_place', 'params': {'K': 1 if quick else 2}, 'timeout': T1, 'native_limit': 60})
    out.append({'name': 'api_flag', 'factory': 'api_flag', 'params': {'K': 1 if quick else 2}, 'timeout': T1, 'native_limit': 60})
    return out
