"""C04 - Every relationship becomes exactly one correctly directed FOREIGN KEY in SQL."""
from harness.common import Harness, IntRange, Cls, hole_args, text_of, reached
from harness import docs
from oracle import ddl

ASSUMPTIONS = [
    'two tables (or one, self-reference) with one or two references; kind / composite / schemas fanned out by the driver; inline flag, '
    'naming and the update/delete actions symbolic; column and constraint names are K-character holes; composite width 2',
    'the fixed columns of a table carry four-character names (idk_, yyy_, zed_) so that a hole of at most three characters cannot '
    'repeat one of them: two columns of one name in a table are outside the property (a false alarm of the first thorough run: hole = \'idk\')',
    'for a many-to-many reference the CONSTRAINT name of the two generated foreign keys is not asserted (the property does not say)',
]

NAME = Cls('NARROW', minus='"')
ACTIONS = [None, 'no action', 'restrict', 'cascade', 'set null', 'set default']


def _q(schema, name):
    return (name,) if schema == 'public' else (schema, name)


def _col(name, typ='int', pk=False, nn=False):
    return (name, typ, pk, False, False, nn, None)


def _same_masked(a, b, mask_fk_name):
    if not mask_fk_name:
        return a == b
    if a[0] != 'alter' or b[0] != 'alter':
        return a == b
    return a[1] == b[1] and a[2][1:] == b[2][1:]


def _check(sql, expected, mask=False):
    r = ddl.read_or_none(sql)
    if r is None:
        return 'the emitted SQL is not the expected DDL shape (independent reader failed)'
    stmts = r[0]
    if len(stmts) != len(expected):
        return 'number of SQL statements differs: a reference was rendered twice, not at all, or something extra appeared'
    for e in expected:
        n = 0
        for s in stmts:
            if _same_masked(s, e, mask):
                n += 1
        if n != 1:
            return 'expected ' + e[0] + ' statement missing, duplicated or different (direction / columns / constraint / actions / placement)'
    return ''


def one_ref(kind, composite, s1, s2, selfref, K, mode='names', upd_i=3, dele_i=4, braces=False, samename=False):
    """one reference between table a (left) and b (right) [or a and a]
    mode 'names': inline / named symbolic, names are holes, actions fixed by the driver
    mode 'actions': inline and both actions symbolic, names concrete (the two groups do not interact in the renderer)"""
    if mode == 'names':
        # '{' / '}' fork the renderer three ways per character (brace escaping): they get dedicated short instances
        dom = NAME if braces else Cls('NARROW', minus='"{}')
        args = [('inline', 'bool'), ('named', 'bool')] + hole_args('x', K, dom) + hole_args('n', K, dom)
    else:
        args = [('inline', 'bool'), ('upd', IntRange(0, 5)), ('dele', IntRange(0, 5))]

    def build(a):
        from pydbml import Database
        from pydbml.classes import Table, Column, Reference
        a = dict(a)
        if mode == 'names':
            a['upd'], a['dele'] = upd_i, dele_i
            xname = text_of(a, 'x', K)
            cname = text_of(a, 'n', K)
        else:
            a['named'] = True
            xname, cname = 'x{', 'fk 1'
        ta = Table('a', schema=s1, columns=[Column(xname, 'int'), Column('yyy_', 'varchar(5)'), Column('idk_', 'int', pk=True), Column('zed_', 'text')])
        if selfref:
            tb = ta
            sb = s1
            bname = 'a'
        else:
            # samename: the two tables share the bare name and differ only by schema
            bname = 'a' if samename else 'b'
            tb = Table(bname, schema=s2, columns=[Column('idk_', 'int', pk=True), Column('zed_', 'text')])
            sb = s2
        db = Database()
        db.add(ta)
        if not selfref:
            db.add(tb)
        left = [ta.columns[0], ta.columns[1]] if composite else [ta.columns[0]]
        right = [tb['idk_'], tb['zed_']] if composite else [tb['idk_']]
        ref = Reference(kind, left, right, name=cname if a['named'] else None, on_update=ACTIONS[a['upd']],
                        on_delete=ACTIONS[a['dele']], inline=a['inline'])
        db.add(ref)
        lcols = (xname, 'yyy_') if composite else (xname,)
        rcols = ('idk_', 'zed_') if composite else ('idk_',)
        qa, qb = _q(s1, 'a'), _q(sb, bname)
        upd = ACTIONS[a['upd']].upper() if ACTIONS[a['upd']] else None
        dele = ACTIONS[a['dele']].upper() if ACTIONS[a['dele']] else None
        cn = cname if a['named'] else None
        a_cols = (_col(xname), _col('yyy_', 'varchar(5)'), _col('idk_', pk=True), _col('zed_', 'text'))
        b_cols = (_col('idk_', pk=True), _col('zed_', 'text'))
        a_fks, b_fks, extra = [], [], []
        mask = False
        if kind == '<>':
            jq = _q(s1, 'a_' + bname)
            jcols = tuple(_col('a_' + n, t, nn=True) for n, t in zip(lcols, ('int', 'varchar(5)'))) + \
                tuple(_col(bname + '_' + n, t, nn=True) for n, t in zip(rcols, ('int', 'text')))
            jpk = (tuple(('col', c[0]) for c in jcols),)
            extra.append(('table', jq, jcols, jpk, ()))
            extra.append(('alter', jq, (None, tuple(c[0] for c in jcols[:len(lcols)]), qa, lcols, upd, dele)))
            extra.append(('alter', jq, (None, tuple(c[0] for c in jcols[len(lcols):]), qb, rcols, upd, dele)))
            mask = True
        else:
            if kind == '<':
                holder_q, hcols, ref_q, refcols, holder_is_a = qb, rcols, qa, lcols, selfref
            else:
                holder_q, hcols, ref_q, refcols, holder_is_a = qa, lcols, qb, rcols, True
            fk = (cn, hcols, ref_q, refcols, upd, dele)
            if a['inline']:
                (a_fks if holder_is_a else b_fks).append(fk)
            else:
                extra.append(('alter', holder_q, fk))
        exp = [('table', qa, a_cols, (), tuple(a_fks))]
        if not selfref:
            exp.append(('table', qb, b_cols, (), tuple(b_fks)))
        return db, exp + extra, mask

    def body(a):
        db, expected, mask = build(a)
        try:
            sql = db.sql
        except Exception:
            return '.sql raised'
        reached()
        return _check(sql, expected, mask)

    def describe(a):
        d = {'kind': kind, 'composite': composite, 'left_schema': s1, 'right_schema': s2, 'self_reference': selfref, 'mode': mode}
        d.update(a)
        return d

    return Harness(body, args, describe=describe,
                   bounds={'kind': kind, 'composite': composite, 'schemas': [s1, s2], 'selfref': selfref, 'K': K, 'mode': mode})


def two_refs(k1, k2, K):
    """two references of kinds k1, k2 between the same tables, inline-ness of each symbolic: each exactly once, in the right table"""
    args = [('in1', 'bool'), ('in2', 'bool'), ('named', 'bool')] + hole_args('n', K, NAME)

    def body(a):
        from pydbml import Database
        from pydbml.classes import Table, Column, Reference
        cname = text_of(a, 'n', K)
        ta = Table('a', columns=[Column('x', 'int'), Column('y', 'int')])
        tb = Table('b', schema='s', columns=[Column('id', 'int'), Column('w', 'int')])
        db = Database()
        db.add(tb)
        db.add(ta)
        r1 = Reference(k1, [ta['x']], [tb['id']], inline=a['in1'], name=cname if a['named'] else None)
        r2 = Reference(k2, [ta['y']], [tb['w']], inline=a['in2'], on_delete='cascade')
        db.add(r1)
        db.add(r2)
        try:
            sql = db.sql
        except Exception:
            return '.sql raised'
        reached()
        qa, qb = ('a',), ('s', 'b')
        a_fks, b_fks, extra = [], [], []
        for (k, lc, rc, inl, cn, dele) in ((k1, 'x', 'id', a['in1'], cname if a['named'] else None, None),
                                          (k2, 'y', 'w', a['in2'], None, 'CASCADE')):
            if k == '<':
                hq, hc, rq, rcol, bucket = qb, rc, qa, lc, b_fks
            else:
                hq, hc, rq, rcol, bucket = qa, lc, qb, rc, a_fks
            fk = (cn, (hc,), rq, (rcol,), None, dele)
            if inl:
                bucket.append(fk)
            else:
                extra.append(('alter', hq, fk))
        exp = [('table', qa, (_col('x'), _col('y')), (), tuple(a_fks)), ('table', qb, (_col('id'), _col('w')), (), tuple(b_fks))] + extra
        return _check(sql, exp)

    return Harness(body, args, describe=lambda a: dict(a, k1=k1, k2=k2), bounds={'kinds': [k1, k2], 'K': K})


def parsed_ref(form, kind, K):
    """the same reference written inline / short / block in a document: one FK, in the right place, never both"""
    args = [('upd', IntRange(0, 5)), ('named', 'bool')] + hole_args('x', K, Cls('NARROW', minus='"\\ (),'))
    # referenced column names: no blank / parenthesis / comma (ReferenceBlueprint strips them: judged by C01), no backslash

    def body(a):
        xname = text_of(a, 'x', K)
        qx = docs.qname(xname)
        sett = (' [update: ' + ACTIONS[a['upd']] + ']') if ACTIONS[a['upd']] else ''
        nm = ' fk1' if a['named'] else ''
        if form == 'inline':
            doc = 'Table a {\n  ' + qx + ' int [ref: ' + kind + ' s.b.id]\n}\nTable s.b {\n  id int\n}\n'
        elif form == 'short':
            doc = 'Table a {\n  ' + qx + ' int\n}\nTable s.b {\n  id int\n}\nRef' + nm + ': a.' + qx + ' ' + kind + ' s.b.id' + sett + '\n'
        else:
            doc = 'Table a {\n  ' + qx + ' int\n}\nTable s.b {\n  id int\n}\nRef' + nm + ' {\n  a.' + qx + ' ' + kind + ' s.b.id' + sett + '\n}\n'
        try:
            db = docs.parse(doc)
        except Exception:
            return 'well-formed document rejected'
        try:
            sql = db.sql
        except Exception:
            return '.sql raised'
        reached()
        qa, qb = ('a',), ('s', 'b')
        upd = ACTIONS[a['upd']].upper() if (ACTIONS[a['upd']] and form != 'inline') else None
        cn = 'fk1' if (a['named'] and form != 'inline') else None
        if kind == '<':
            hq, fk = qb, (cn, ('id',), qa, (xname,), upd, None)
        else:
            hq, fk = qa, (cn, (xname,), qb, ('id',), upd, None)
        a_fks = (fk,) if (form == 'inline' and hq == qa) else ()
        b_fks = (fk,) if (form == 'inline' and hq == qb) else ()
        exp = [('table', qa, (_col(xname),), (), a_fks), ('table', qb, (_col('id'),), (), b_fks)]
        if form != 'inline':
            exp.append(('alter', hq, fk))
        return _check(sql, exp)

    return Harness(body, args, describe=lambda a: dict(a, form=form, kind=kind), bounds={'form': form, 'kind': kind, 'K': K})


def parsed_composite(kind, K=1):
    """composite reference parsed from a document whose columns are written in another order than the tables define them"""
    args = [('block', 'bool')] + hole_args('x', K, Cls('WORD'))

    def body(a):
        x = 'c_' + text_of(a, 'x', K)
        doc = ('Table a {\n  id int\n  ' + x + ' int\n  z int\n}\nTable s.b {\n  k1 int\n  k2 int\n  k3 int\n}\n')
        refline = 'a.(z, ' + x + ') ' + kind + ' s.b.(k3, k1)'
        doc += ('Ref {\n  ' + refline + '\n}\n') if a['block'] else ('Ref: ' + refline + '\n')
        try:
            db = docs.parse(doc)
            sql = db.sql
        except Exception:
            return 'well-formed document rejected or .sql raised'
        reached()
        qa, qb = ('a',), ('s', 'b')
        ta = ('table', qa, (_col('id'), _col(x), _col('z')), (), ())
        tb = ('table', qb, (_col('k1'), _col('k2'), _col('k3')), (), ())
        if kind == '<>':
            jq = ('a_b',)
            jcols = (_col('a_z', nn=True), _col('a_' + x, nn=True), _col('b_k3', nn=True), _col('b_k1', nn=True))
            exp = [ta, tb, ('table', jq, jcols, (tuple(('col', c[0]) for c in jcols),), ()),
                   ('alter', jq, (None, ('a_z', 'a_' + x), qa, ('z', x), None, None)),
                   ('alter', jq, (None, ('b_k3', 'b_k1'), qb, ('k3', 'k1'), None, None))]
            return _check(sql, exp, True)
        if kind == '<':
            fk = (None, ('k3', 'k1'), qa, ('z', x), None, None)
            return _check(sql, [ta, tb, ('alter', qb, fk)])
        fk = (None, ('z', x), qb, ('k3', 'k1'), None, None)
        return _check(sql, [ta, tb, ('alter', qa, fk)])

    return Harness(body, args, describe=lambda a: dict(a, kind=kind), bounds={'kind': kind, 'K': K})


def instances(tier):
    out = []

    def add(name, factory, params, timeout=240, **kw):
        d = {'name': name, 'factory': factory, 'params': params, 'timeout': timeout, 'native_limit': 120}
        d.update(kw)
        out.append(d)

    quick = tier == 'quick'
    K = 2 if quick else 3
    T = 280 if quick else 2400
    for kind in ('>', '<', '-', '<>'):
        kn = {'>': 'gt', '<': 'lt', '-': 'one', '<>': 'm2m'}[kind]
        base = [('single/public-s', {'composite': False, 's1': 'public', 's2': 's', 'selfref': False}),
                ('composite/s-public', {'composite': True, 's1': 's', 's2': 'public', 'selfref': False}),
                ('single/self', {'composite': False, 's1': 'public', 's2': 'public', 'selfref': True})]
        # both tables in one non-public schema, and a self-reference inside such a schema (cheap: also in the quick tier)
        base += [('composite/self-s', {'composite': True, 's1': 's', 's2': 's', 'selfref': True}),
                 ('single/s-s', {'composite': False, 's1': 's', 's2': 's', 'selfref': False})]
        for nm, p in base:
            add(f'one/{kn}/{nm}/names/K{K}', 'one_ref', dict(p, kind=kind, K=K, mode='names'), T)
        add(f'one/{kn}/single/public-s/braces/K1', 'one_ref', dict(base[0][1], kind=kind, K=1, mode='names', braces=True), T)
        add(f'one/{kn}/single/public-s/samename/K{K}', 'one_ref', dict(base[0][1], kind=kind, K=K, mode='names', samename=True), T)
        add(f'one/{kn}/single/public-s/actions', 'one_ref', dict(base[0][1], kind=kind, K=K, mode='actions'), T)
        add(f'one/{kn}/composite/s-public/actions', 'one_ref', dict(base[1][1], kind=kind, K=K, mode='actions'), T)
    for k1, k2 in (('>', '<'), ('<', '-'), ('-', '>'), ('<', '<')):
        add(f'two/{k1}{k2}/K{K}'.replace('<', 'lt').replace('>', 'gt').replace('-', 'one'), 'two_refs', {'k1': k1, 'k2': k2, 'K': K}, T)
    for kind in ('>', '<', '<>'):
        kn = {'>': 'gt', '<': 'lt', '<>': 'm2m'}[kind]
        add(f'parsed_composite/{kn}', 'parsed_composite', {'kind': kind, 'K': 1 if quick else 2}, T)
    for form in ('inline', 'short', 'block'):
        for kind in ('>', '<', '-'):
            kn = {'>': 'gt', '<': 'lt', '-': 'one'}[kind]
            add(f'parsed/{form}/{kn}/K{K if quick else 2}', 'parsed_ref', {'form': form, 'kind': kind, 'K': K if quick else 2}, T)
    return out
