"""C17 - Inconsistent models are refused at render time, not rendered as bogus output."""
from harness.common import Harness, IntRange, Cls, hole_args, text_of, reached

ASSUMPTIONS = [
    'one inconsistency per model; element kind, missing attribute, route and the legal-edit prefix are symbolic selectors '
    '(path-enumerated, the solver decides feasibility); names are symbolic holes where they are not hashed',
]

NAME = Cls('NARROW', minus='"')

# (case name) -> builder returning (callable raising, expected exception class name)
CASES = [
    'table_no_name', 'table_no_schema', 'column_no_name', 'column_no_type', 'enum_no_name', 'enum_no_schema', 'enum_no_items',
    'enum_item_no_name', 'index_no_table', 'index_no_subjects',
    'ref_detached_col1_sql', 'ref_detached_col2_sql', 'ref_detached_col1_dbml', 'ref_detached_col2_dbml',
    'ref_mixed_col1_table1', 'ref_mixed_col2_table2', 'ref_mixed_dbml', 'ref_composite_inline_dbml',
    'table_get_refs_detached', 'column_get_refs_detached', 'table_sql_refs_detached',
    'ref_no_type', 'ref_m2m_detached_sql', 'column_in_table_no_type', 'table_in_db_no_name',
    'item_in_enum_no_name', 'item_in_db_enum_no_name', 'column_in_table_no_name', 'index_in_table_no_subjects', 'enum_in_db_no_schema',
    'ref_mixed_same_fullname_table1', 'ref_mixed_same_fullname_dbml', 'ref_in_db_detached_sql', 'ref_in_db_detached_dbml',
    'ref_composite_detached_trailing_sql', 'ref_composite_detached_trailing_dbml', 'ref_no_col1', 'ref_no_col2', 'table_in_db_no_schema',
    'ref_mixed_lookalike_table1', 'ref_mixed_lookalike_table2', 'ref_mixed_lookalike_dbml', 'table_deleted_by_twin_get_refs',
]


MSG_CASES = ('ref_detached_col1_sql', 'ref_detached_col2_sql', 'ref_detached_col1_dbml', 'ref_detached_col2_dbml',
             'table_sql_refs_detached', 'ref_m2m_detached_sql', 'ref_composite_detached_trailing_sql',
             'ref_composite_detached_trailing_dbml', 'ref_in_db_detached_sql', 'ref_in_db_detached_dbml')


def refused(K=2):
    """kind x missing attribute x route, after a symbolic prefix of legal edits"""
    def build(a, nm):
        import pydbml.exceptions as ex
        from pydbml import Database
        from pydbml.classes import Table, Column, Enum, EnumItem, Index, Reference
        db = Database()
        t1 = Table('t', columns=[Column('id', 'int'), Column(nm, 'int')])   # table names are hashed by the database: concrete
        t2 = Table('u', schema='s', columns=[Column('id', 'int'), Column('y', 'int')])
        en = Enum('e', ['a', 'b'])
        if a['p_add']:
            db.add(t1)
            db.add(t2)
            db.add(en)
        if a['p_edit']:
            t1.columns[0].pk = True
            t2.alias = 'al'
            t1.add_index(Index([t1.columns[0]], name=nm))
        case = CASES[a['case']]
        free = Column(nm, 'int')
        if case == 'table_no_name':
            t1.name = None
            return (lambda: t1.sql), ex.AttributeMissingError
        if case == 'table_in_db_no_name':
            t1.name = None
            return (lambda: db.sql), ex.AttributeMissingError if a['p_add'] else None
        if case == 'table_no_schema':
            t1.schema = None
            return (lambda: t1.sql), ex.AttributeMissingError
        if case == 'column_no_name':
            c = Column(None, 'int')
            return (lambda: c.sql), ex.AttributeMissingError
        if case == 'column_no_type':
            c = Column(nm, None)
            return (lambda: c.sql), ex.AttributeMissingError
        if case == 'column_in_table_no_type':
            t1.columns[1].type = None
            return (lambda: t1.sql), ex.AttributeMissingError
        if case == 'enum_no_name':
            en.name = None
            return (lambda: en.sql), ex.AttributeMissingError
        if case == 'enum_no_schema':
            en.schema = None
            return (lambda: en.sql), ex.AttributeMissingError
        if case == 'enum_no_items':
            en.items = None
            return (lambda: en.sql), ex.AttributeMissingError
        if case == 'enum_item_no_name':
            it = EnumItem(None)
            return (lambda: it.sql), ex.AttributeMissingError
        if case == 'index_no_table':
            # never attached, or attached and removed again; a primary-key index is refused like any other
            ix = Index([t1.columns[0]] if a['p_edit'] else [free], pk=a['p_inline'])
            if a['p_edit']:
                t1.add_index(ix)
                t1.delete_index(ix)
            return (lambda: ix.sql), ex.AttributeMissingError
        if case == 'index_no_subjects':
            ix = Index([t1.columns[0]])
            t1.add_index(ix)
            ix.subjects = None
            return (lambda: ix.sql), ex.AttributeMissingError
        if case == 'ref_no_type':
            r = Reference('>', t1.columns[1], t2.columns[0])
            r.type = None
            return (lambda: r.sql), ex.AttributeMissingError
        if case in ('ref_detached_col1_sql', 'ref_detached_col1_dbml'):
            r = Reference('>' if a['p_edit'] else '<', [free], [t2.columns[0]], inline=a['p_inline'])
            return ((lambda: r.sql) if case.endswith('sql') else (lambda: r.dbml)), ex.TableNotFoundError
        if case in ('ref_detached_col2_sql', 'ref_detached_col2_dbml'):
            r = Reference('-' if a['p_edit'] else '>', [t1.columns[1]], [free], inline=a['p_inline'])
            return ((lambda: r.sql) if case.endswith('sql') else (lambda: r.dbml)), ex.TableNotFoundError
        if case == 'ref_m2m_detached_sql':
            r = Reference('<>', [t1.columns[1]], [free])
            return (lambda: r.sql), ex.TableNotFoundError
        if case == 'ref_mixed_col1_table1':
            r = Reference('>', [t1.columns[0], t2.columns[1]], [t2.columns[0], t2.columns[1]])
            return (lambda: r.table1), ex.DBMLError
        if case == 'ref_mixed_col2_table2':
            r = Reference('>', [t1.columns[0], t1.columns[1]], [t2.columns[0], t1.columns[1]])
            return (lambda: r.table2), ex.DBMLError
        if case == 'ref_mixed_dbml':
            r = Reference('>', [t1.columns[0], t2.columns[1]], [t2.columns[0], t2.columns[1]])
            return (lambda: r.dbml), ex.DBMLError
        if case == 'ref_composite_inline_dbml':
            r = Reference('>', [t1.columns[0], t1.columns[1]], [t2.columns[0], t2.columns[1]], inline=True)
            return (lambda: r.dbml), ex.DBMLError
        if case == 'item_in_enum_no_name':
            en.items[1].name = None
            return (lambda: en.sql), ex.AttributeMissingError
        if case == 'item_in_db_enum_no_name':
            en.items[0].name = None
            return (lambda: db.sql), ex.AttributeMissingError if a['p_add'] else None
        if case == 'column_in_table_no_name':
            t1.columns[1].name = None
            return (lambda: t1.sql), ex.AttributeMissingError
        if case == 'index_in_table_no_subjects':
            ix = Index([t1.columns[0]], pk=a['p_inline'])
            t1.add_index(ix)
            ix.subjects = None
            # a detached table refuses .sql earlier (unknown database) unless the pk index is reached inside the body
            return (lambda: t1.sql), (ex.AttributeMissingError if (a['p_add'] or a['p_inline']) else None)
        if case == 'enum_in_db_no_schema':
            en.schema = None
            return (lambda: db.sql), ex.AttributeMissingError if a['p_add'] else None
        if case in ('ref_mixed_same_fullname_table1', 'ref_mixed_same_fullname_dbml'):
            # two different tables that answer to the same schema.name (e.g. after a rename, or from two databases)
            twin = Table('t', columns=[Column('id', 'int'), Column(nm, 'int'), Column('extra', 'int')])
            r = Reference('>', [t1.columns[0], twin.columns[1]], [t2.columns[0], t2.columns[1]])
            return ((lambda: r.table1) if case.endswith('table1') else (lambda: r.dbml)), ex.DBMLError
        if case in ('ref_mixed_lookalike_table1', 'ref_mixed_lookalike_table2', 'ref_mixed_lookalike_dbml'):
            # a different table with the same schema, name, alias and column names (another revision of it): only a type,
            # a flag or the note differs
            if a['p_inline']:
                look = Table('t', columns=[Column('id', 'bigint'), Column(nm, 'int')])
            else:
                look = Table('t', columns=[Column('id', 'int'), Column(nm, 'int', not_null=True)], note='rev 2')
            if a['p_edit']:
                look.columns[0].pk = True
            if case.endswith('table2'):
                r = Reference('<', [t2.columns[0], t2.columns[1]], [look.columns[0], t1.columns[1]])
                return (lambda: r.table2), ex.DBMLError
            r = Reference('>', [t1.columns[0], look.columns[1]], [t2.columns[0], t2.columns[1]])
            return ((lambda: r.table1) if case.endswith('table1') else (lambda: r.dbml)), ex.DBMLError
        if case == 'table_deleted_by_twin_get_refs':
            # the table is removed from its database through an equal but distinct object (the same table from a second
            # build of the same model): the stored table is the one that becomes detached
            if not a['p_add']:
                return None, None
            twin = Table('t', columns=[Column('id', 'int'), Column(nm, 'int')])
            if a['p_edit']:
                twin.columns[0].pk = True
                twin.add_index(Index([twin.columns[0]], name=nm))
            try:
                db.delete(twin)
            except Exception:
                return (lambda: None), ex.DBMLError      # refusing the twin is not what this library does: reported as a failure
            if a['p_inline']:
                return (lambda: t1.columns[1].get_refs()), ex.UnknownDatabaseError
            return (lambda: t1.get_refs()), ex.UnknownDatabaseError
        if case in ('ref_in_db_detached_sql', 'ref_in_db_detached_dbml'):
            if not a['p_add']:
                return None, None
            r = Reference('>', [t1.columns[1]], [t2.columns[0]], inline=a['p_inline'])
            db.add(r)
            t2.delete_column(0)        # the referenced column is detached afterwards (editing history)
            return ((lambda: db.sql) if case.endswith('sql') else (lambda: db.dbml)), ex.TableNotFoundError
        if case in ('ref_composite_detached_trailing_sql', 'ref_composite_detached_trailing_dbml'):
            r = Reference('>' if a['p_edit'] else '<', [t1.columns[0], t1.columns[1]], [t2.columns[0], t2.columns[1]])
            if a['p_inline']:
                t2.delete_column(1)        # the trailing column of the right side is detached
            else:
                t1.delete_column(1)        # ... or of the left side
            return ((lambda: r.sql) if case.endswith('sql') else (lambda: r.dbml)), ex.TableNotFoundError
        if case in ('ref_no_col1', 'ref_no_col2'):
            r = Reference('>', t1.columns[1], t2.columns[0], inline=a['p_inline'])
            if case == 'ref_no_col1':
                r.col1 = None
            else:
                r.col2 = None
            return (lambda: r.sql), ex.AttributeMissingError
        if case == 'table_in_db_no_schema':
            t2.schema = None
            return (lambda: db.sql), ex.AttributeMissingError if a['p_add'] else None
        if case == 'table_get_refs_detached':
            d = Table(nm, columns=[Column('id', 'int')])
            return (lambda: d.get_refs()), ex.UnknownDatabaseError
        if case == 'column_get_refs_detached':
            if a['p_inline']:
                d = Table(nm, columns=[Column('id', 'int')])     # column in a detached table
                return (lambda: d.columns[0].get_refs()), ex.UnknownDatabaseError
            return (lambda: free.get_refs()), ex.TableNotFoundError
        if case == 'table_sql_refs_detached':
            from pydbml.renderer.sql.default.table import get_references_for_sql
            d = Table(nm, columns=[Column('id', 'int')])
            return (lambda: get_references_for_sql(d)), ex.UnknownDatabaseError
        raise AssertionError(case)

    def body(a):
        # a symbolic name formatted into an exception message is realised value by value: those cases use a fixed name
        nm = 'n' if CASES[a['case']] in MSG_CASES else text_of(a, 'c', K)
        fn, exc = build(a, nm)
        if exc is None:
            return ''
        reached()
        try:
            r = fn()
        except exc:
            return ''
        except Exception:
            return 'inconsistent model raised an error other than the documented one'
        return 'inconsistent model was rendered / answered instead of being refused'

    def describe(a):
        return {'case': CASES[a['case']], 'in_database': a['p_add'], 'edited': a['p_edit'], 'inline': a['p_inline'],
                'name': ''.join(chr(a[f'c{i}']) for i in range(K))}

    args = [('case', IntRange(0, len(CASES) - 1)), ('p_add', 'bool'), ('p_edit', 'bool'), ('p_inline', 'bool')] + hole_args('c', K, NAME)
    return Harness(body, args, describe=describe, bounds={'cases': CASES, 'K': K})


def one_case(case, K=2):
    """same as refused() with the case fixed by the driver (fan-out)"""
    h0 = refused(K)
    idx = CASES.index(case)

    def body(a):
        b = dict(a)
        b['case'] = idx
        return h0.body(b)

    def describe(a):
        b = dict(a)
        b['case'] = idx
        return h0.describe(b)

    return Harness(body, [x for x in h0.args if x[0] != 'case'], describe=describe, bounds={'case': case, 'K': K})


def instances(tier):
    K = 2 if tier == 'quick' else 3
    return [{'name': f'refused/{c}/K{K}', 'factory': 'one_case', 'params': {'case': c, 'K': K}, 'timeout': 200 if tier == 'quick' else 900,
             'native_limit': 120} for c in CASES]
