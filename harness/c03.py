"""C03 - SQL DDL states exactly the model: types, tables, columns, keys, indexes, notes."""
from harness.common import Harness, IntRange, Cls, hole_args, text_of, reached, region_active
from harness import docs
from oracle import ddl

ASSUMPTIONS = [
    'models built through pydbml.classes (and one parsed family); tables <= 2, columns <= 3, indexes <= 2 per instance',
    'names are K-character holes over double-quote-free text; integer / float defaults are enumerated (formatting an int realises it); '
    'string defaults and plain types are holes over identifier-like text because the renderer emits them raw and an independent reader '
    'cannot delimit arbitrary raw text (stated limit, not a finding)',
]

NAME = Cls('NARROW', minus='"')
WIDE_NAME = Cls('BMP', minus='"')
RAW = Cls('WORD')
NOTE = Cls('NARROW', minus="\\")
ITEM = Cls('NARROW', minus="'\\")

DEFAULT_KINDS = ['none', 'int0', 'int7', 'float0', 'float35', 'true', 'false', 'empty', 'str', 'expr']
IDX_TYPES = [None, 'brin', 'btree', 'gin', 'gist', 'hash', 'spgist']
EXPRS = ['now()', '(a) + (b)', '(x)', '((y))', "coalesce(a, 'z')", 'a - (b)', "regexp_replace(b, '\\n+', ' ')", 'a\\tb || \\r\\f']   # incl. texts that already start and end with parentheses


def _default(kind, raw, ex=0):
    from pydbml.classes import Expression
    if kind == 'expr':
        return (Expression(EXPRS[ex]), '(' + EXPRS[ex] + ')')
    return {'none': (None, None), 'int0': (0, '0'), 'int7': (7, '7'), 'float0': (0.0, '0.0'), 'float35': (3.5, '3.5'),
            'true': (True, 'True'), 'false': (False, 'False'), 'empty': ('', ''), 'str': (raw, raw),
            'expr': (Expression(raw + '()'), '(' + raw + '())')}[kind]


def _q(schema, name):
    return (name,) if schema == 'public' else (schema, name)


def _count(stmts, s):
    n = 0
    for x in stmts:
        if x == s:
            n += 1
    return n


def _check(sql, expected):
    r = ddl.read_or_none(sql)
    if r is None:
        return 'the emitted SQL is not the expected DDL shape (independent reader failed)'
    stmts = r[0]
    if len(stmts) != len(expected):
        return 'number of SQL statements differs from what the model declares'
    for e in expected:
        if _count(stmts, e) != 1:
            return 'an expected ' + e[0] + ' statement is missing, duplicated or different'
    return ''


def columns(schema, K, dk, wide=False):
    """one table, three columns: flags of c0 and pk of c1/c2 symbolic, default kind of c0 symbolic, names are holes"""
    dom = WIDE_NAME if wide else NAME
    args = ([('pk0', 'bool'), ('un0', 'bool'), ('nn0', 'bool'), ('ai0', 'bool'), ('pk1', 'bool'), ('pk2', 'bool')]
            + hole_args('n', K, dom) + hole_args('r', 2, RAW) + ([('ex', IntRange(0, len(EXPRS) - 1))] if dk == 'expr' else []))
    dki = DEFAULT_KINDS.index(dk)

    def build(a):
        from pydbml import Database
        from pydbml.classes import Table, Column
        name = text_of(a, 'n', K)
        raw = text_of(a, 'r', 2)
        a = dict(a)
        a['dk'] = dki
        a['nn2'] = True
        dv, dtext = _default(DEFAULT_KINDS[a['dk']], raw, a.get('ex', 0))
        c0 = Column(name, 'varchar(255)', pk=a['pk0'], unique=a['un0'], not_null=a['nn0'], autoinc=a['ai0'], default=dv)
        c1 = Column('b', raw, pk=a['pk1'])
        c2 = Column('c', 'int[]', pk=a['pk2'], not_null=a['nn2'])
        t = Table('t', schema=schema, columns=[c0, c1, c2])
        db = Database()
        db.add(t)
        npk = (1 if a['pk0'] else 0) + (1 if a['pk1'] else 0) + (1 if a['pk2'] else 0)
        comp = npk > 1
        cols = (
            (name, 'varchar(255)', a['pk0'] and not comp, a['ai0'], a['un0'], a['nn0'], dtext),
            ('b', raw, a['pk1'] and not comp, False, False, False, None),
            ('c', 'int[]', a['pk2'] and not comp, False, False, a['nn2'], None),
        )
        pks = ()
        if comp:
            pks = (tuple(('col', n) for n, f in ((name, a['pk0']), ('b', a['pk1']), ('c', a['pk2'])) if f),)
        return db, [('table', _q(schema, 't'), cols, pks, ())]

    def body(a):
        db, expected = build(a)
        try:
            sql = db.sql
            sql_t = db.tables[0].sql
        except Exception:
            return '.sql raised'
        reached()
        if sql.count(sql_t) != 1:
            return 'the table-level SQL does not appear exactly once in the database-level SQL'
        return _check(sql, expected) or ''

    def describe(a):
        return {'schema': schema, 'column0': {'name': ''.join(chr(a[f'n{i}']) for i in range(K)), 'pk': a['pk0'], 'unique': a['un0'],
                                             'not_null': a['nn0'], 'autoinc': a['ai0'], 'default': dk},
                'pk1': a['pk1'], 'pk2': a['pk2'], 'raw_text': ''.join(chr(a[f'r{i}']) for i in range(2))}

    return Harness(body, args, describe=describe, bounds={'schema': schema, 'K': K, 'default_kind': dk})


def indexes(schema, shape, K):
    """one table (two columns) with two indexes; options of index 0 symbolic; shape of its subjects fanned out"""
    args = ([('uniq', 'bool'), ('named', 'bool'), ('ipk', 'bool'), ('cpk', 'bool'), ('ityp', IntRange(0, len(IDX_TYPES) - 1))]
            + hole_args('n', K, NAME) + hole_args('c', K, NAME) + ([('ex', IntRange(0, len(EXPRS) - 1))] if shape in ('expr', 'colexpr') else []))

    def build(a):
        from pydbml import Database
        from pydbml.classes import Table, Column, Index, Expression
        a = dict(a)
        a['uniq1'] = True
        iname = text_of(a, 'n', K)
        cname = text_of(a, 'c', K)
        c0 = Column(cname, 'int', pk=a['cpk'])
        c1 = Column('b', 'int')
        t = Table('t', schema=schema, columns=[c0, c1])
        if shape == 'single':
            subj, esubj = [c0], (('col', cname),)
        elif shape == 'composite':
            subj, esubj = [c0, c1], (('col', cname), ('col', 'b'))
        elif shape == 'expr':
            subj, esubj = [Expression(EXPRS[a['ex']])], (('expr', '(' + EXPRS[a['ex']] + ')'),)
        else:
            subj, esubj = [c1, Expression(EXPRS[a['ex']])], (('col', 'b'), ('expr', '(' + EXPRS[a['ex']] + ')'))
        i0 = Index(subj, name=iname if a['named'] else None, unique=a['uniq'], type=IDX_TYPES[a['ityp']], pk=a['ipk'])
        i1 = Index([c1], unique=a['uniq1'])
        t.add_index(i0)
        t.add_index(i1)
        db = Database()
        db.add(t)
        q = _q(schema, 't')
        pks = (esubj,) if a['ipk'] else ()
        exp = [('table', q, ((cname, 'int', a['cpk'], False, False, False, None), ('b', 'int', False, False, False, False, None)), pks, ())]
        if not a['ipk']:
            typ = IDX_TYPES[a['ityp']]
            exp.append(('index', a['uniq'], iname if a['named'] else None, q, typ.upper() if typ else None, esubj))
        exp.append(('index', a['uniq1'], None, q, None, (('col', 'b'),)))
        return db, exp

    def body(a):
        db, expected = build(a)
        try:
            sql = db.sql
        except Exception:
            return '.sql raised'
        reached()
        return _check(sql, expected) or ''

    def describe(a):
        return {'schema': schema, 'shape': shape, 'index0': {'unique': a['uniq'], 'named': a['named'], 'pk': a['ipk'],
                                                           'type': IDX_TYPES[a['ityp']], 'name': ''.join(chr(a[f'n{i}']) for i in range(K))},
                'column_pk': a['cpk'], 'column_name': ''.join(chr(a[f'c{i}']) for i in range(K))}

    return Harness(body, args, describe=describe, bounds={'schema': schema, 'shape': shape, 'K': K})


def enums_notes(tschema, eschema, K):
    """enum (items are holes), enum-typed column, table note and column note (holes), second table: nothing else appears"""
    args = ([('tnote', 'bool'), ('cnote', 'bool'), ('use_enum', 'bool'), ('second', 'bool')]
            + hole_args('i', K, ITEM) + hole_args('t', K, NOTE) + hole_args('e', K, NAME))

    def build(a):
        from pydbml import Database
        from pydbml.classes import Table, Column, Enum, EnumItem
        item = text_of(a, 'i', K)
        note = text_of(a, 't', K)
        ename = text_of(a, 'e', K)
        en = Enum(ename, [EnumItem(item), EnumItem('z', note='item note')], schema=eschema)
        c0 = Column('a', en if a['use_enum'] else 'int', note=note if a['cnote'] else None)
        t = Table('t', schema=tschema, columns=[c0, Column('b', 'int')], note=note if a['tnote'] else None)
        db = Database()
        db.add(en)
        db.add(t)
        exp = [('type', _q(eschema, ename), (item, 'z'))]
        q = _q(tschema, 't')
        ctype = (('q',) + _q(eschema, ename)) if a['use_enum'] else 'int'
        exp.append(('table', q, (('a', ctype, False, False, False, False, None), ('b', 'int', False, False, False, False, None)), (), ()))
        ntext = ''
        for ch in note:
            ntext = ntext + ('"' if ch == "'" else ch)
        if a['tnote']:
            exp.append(('comment', 'TABLE', q, ntext))
        if a['cnote']:
            exp.append(('comment', 'COLUMN', q + ('a',), ntext))
        if a['second']:
            # the second table shares the bare name with the first and differs by schema only
            t2 = Table('t', schema='zz', columns=[Column('k', 'int', pk=True)])
            db.add(t2)
            exp.append(('table', ('zz', 't'), (('k', 'int', True, False, False, False, None),), (), ()))
        return db, exp

    def body(a):
        db, expected = build(a)
        try:
            sql = db.sql
        except Exception:
            return '.sql raised'
        reached()
        return _check(sql, expected) or ''

    def describe(a):
        g = lambda p: ''.join(chr(a[f'{p}{i}']) for i in range(K))
        return {'table_schema': tschema, 'enum_schema': eschema, 'item': g('i'), 'note': g('t'), 'enum_name': g('e'),
                'table_note': a['tnote'], 'column_note': a['cnote'], 'enum_typed': a['use_enum'], 'second_table': a['second']}

    return Harness(body, args, describe=describe, bounds={'tschema': tschema, 'eschema': eschema, 'K': K})


def parsed_table(K):
    """the same clauses for a parsed document: composite pk + pk index + settings spelled in DBML"""
    args = [('pk0', 'bool'), ('pk1', 'bool'), ('ipk', 'bool'), ('nn', 'bool'), ('dk', IntRange(0, 5))] + hole_args('n', K, Cls('NARROW', minus='"\\'))
    # backslash is excluded from parsed names: pyparsing turns \\t, \\n ... inside a quoted name into whitespace (judged by C01)
    DK = ['', ', default: 0', ', default: false', ", default: ''", ', default: `now()`', ', default: 3.5']
    DT = [None, '0', 'False', '', '(now())', '3.5']

    def body(a):
        name = text_of(a, 'n', K)
        st0 = ['unique'] + (['pk'] if a['pk0'] else []) + (['not null'] if a['nn'] else [])
        doc = ('Table s.t {\n  ' + docs.qname(name) + ' int [' + ', '.join(st0) + DK[a['dk']] + ']\n  b int' + (' [pk]' if a['pk1'] else '')
               + '\n  indexes {\n    ' + ('(b, `x`) [pk]' if a['ipk'] else 'b [type: hash]') + '\n  }\n}\n')
        try:
            db = docs.parse(doc)
        except Exception:
            return 'well-formed document rejected'
        try:
            sql = db.sql
        except Exception:
            return '.sql raised'
        reached()
        comp = a['pk0'] and a['pk1']
        cols = ((name, 'int', a['pk0'] and not comp, False, True, a['nn'], DT[a['dk']]),
                ('b', 'int', a['pk1'] and not comp, False, False, False, None))
        pks = []
        if a['ipk']:
            pks.append((('col', 'b'), ('expr', '(x)')))
        if comp:
            pks.append((('col', name), ('col', 'b')))
        exp = [('table', ('s', 't'), cols, tuple(pks), ())]
        if not a['ipk']:
            exp.append(('index', False, None, ('s', 't'), 'HASH', (('col', 'b'),)))
        return _check(sql, exp) or ''

    return Harness(body, args, describe=lambda a: dict(a), bounds={'K': K})


def instances(tier):
    out = []

    def add(name, factory, params, timeout=240, **kw):
        d = {'name': name, 'factory': factory, 'params': params, 'timeout': timeout, 'native_limit': 120}
        d.update(kw)
        out.append(d)

    quick = tier == 'quick'
    K = 2 if quick else 3
    T = 280 if quick else 2400
    for dk in DEFAULT_KINDS:
        add(f'columns/public/{dk}/K{K}', 'columns', {'schema': 'public', 'K': K, 'dk': dk}, T)
    for dk in ('int0', 'empty', 'expr'):
        add(f'columns/pub/{dk}/K{K}', 'columns', {'schema': 'pub', 'K': K, 'dk': dk}, T)
    for schema in ('public', 'Public'):
        for shape in ('single', 'composite', 'expr', 'colexpr'):
            add(f'indexes/{schema}/{shape}/K{K}', 'indexes', {'schema': schema, 'shape': shape, 'K': K}, T)
    for ts, es in (('public', 'public'), ('pub', 'public'), ('public', 'PUBLIC'), ('lic', 'e'), ('e', 'e')):
        add(f'enums_notes/{ts}/{es}/K{K}', 'enums_notes', {'tschema': ts, 'eschema': es, 'K': K}, T)
    add(f'parsed/K{K}', 'parsed_table', {'K': K}, T)
    if not quick:
        add('columns/s/wide/K2', 'columns', {'schema': 's', 'K': 2, 'dk': 'str', 'wide': True}, T)
    return out
