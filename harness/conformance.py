"""Engine-fidelity self-test (DESIGN 2.6): pinned-input twins.

Each instance runs real PyDBML code under CrossHair on an input that is SYMBOLIC IN FORM but pinned to one concrete
value by the precondition, and compares every observable with the value computed natively just before.  A difference
means a CrossHair library model (or one of engine_patches.py) misrepresents Python: the run exits with code 3.
"""
import glob
import os

from harness.common import Harness, IntRange, REPO, reached
from harness import docs
from oracle.content import content


class _Pin:
    """domain with exactly one value"""

    def __init__(self, v):
        self.v = v

    def src(self, name):
        return f"({name} == {self.v})"

    def contains(self, c):
        return c == self.v

    def samples(self):
        return [self.v]

    def describe(self):
        return f'pinned {self.v}'


def _doc_files():
    base = os.path.join(REPO, 'test', 'test_data')
    files = sorted(glob.glob(os.path.join(base, '*.dbml'))) + [os.path.join(REPO, 'test_schema.dbml')]
    return [f for f in files if 'wrong_' not in os.path.basename(f)]


EXTRA_DOCS = {
    'schemas': 'Enum "s 1".level {\n  low [note: \'x\']\n  "mid dle"\n}\nTable s.t as T [headercolor: #abc] {\n  id int [pk]\n  l "s 1".level\n'
               '  indexes {\n    (id, l) [unique, name: \'ix\']\n  }\n}\nRef: T.id - s.t.id\nTableGroup g {\n  s.t\n}\n',
    'props': "Table t {\n  c int [k: 'v', pk]\n  p: 'q'\n  Note: '''\n    a\n      b\n  '''\n}\n",
}


def document(which, pos_frac=0.5):
    """whole pipeline on a real document whose text is a symbolic string (one character pinned by the precondition)"""
    if which in EXTRA_DOCS:
        text = EXTRA_DOCS[which]
    else:
        path = [f for f in _doc_files() if os.path.basename(f) == which][0]
        text = open(path, encoding='utf8').read()
    kw = {'allow_properties': True} if which == 'props' else {}
    p = min(len(text) - 1, int(len(text) * pos_frac))
    db0 = docs.parse(text, **kw)
    c0, d0, s0 = content(db0), db0.dbml, db0.sql
    d1 = docs.parse(d0, **kw).dbml if which not in ('notes.dbml', 'relationships_aliases.dbml', 'general.dbml', 'dbml_schema_def.dbml') else None

    def body(a):
        doc = text[:p] + chr(a['x']) + text[p + 1:]
        try:
            db = docs.parse(doc, **kw)
        except Exception as e:
            return 'engine: document rejected under symbolic execution: ' + type(e).__name__
        reached()
        if content(db) != c0:
            return 'engine: parsed content differs from native execution'
        if db.dbml != d0:
            return 'engine: .dbml differs from native execution'
        if db.sql != s0:
            return 'engine: .sql differs from native execution'
        if d1 is not None and docs.parse(db.dbml, **kw).dbml != d1:
            return 'engine: second render differs from native execution'
        return ''

    return Harness(body, [('x', _Pin(ord(text[p])))], describe=lambda a: {'document': which, 'pinned_position': p},
                   bounds={'document': which, 'chars': len(text)})


HELPER_VECTORS = [
    "a\\b'c'''d", "  x\n    y\n \n  z\n\n", "\n\n   \n", "'''", "a\nb", "\xa0 a b", "{c}{{}}", "line1\\\nline2", "\"q\" \\\"", "",
    "Tab\tle  ", "é€😀"[:2], "a" * 3 + "\n" + " " * 2 + "b",
]


def helpers(i):
    """string helpers of tools / renderers on a pinned symbolic string"""
    from pydbml import tools
    from pydbml.renderer.dbml.default import utils as du
    from pydbml.renderer.sql.default.note import prepare_text_for_sql
    from pydbml.classes import Note
    v = HELPER_VECTORS[i]

    def run(s):
        out = []
        for fn in (tools.strip_empty_lines, tools.remove_indentation, lambda t: tools.comment(t, '//'), tools.indent,
                   lambda t: tools.indent_lines(t, '    '), tools.remove_bom, du.prepare_text_for_dbml, du.quote_string,
                   lambda t: du.note_option_to_dbml(Note(t)), lambda t: prepare_text_for_sql(Note(t)),
                   lambda t: tools.doublequote_string(t) if '\n' not in t else 'multiline',
                   lambda t: 'x{c}y'.format(c=t), lambda t: (t + '{c}').format(c='1') if ('{' not in t and '}' not in t) else 'braces',
                   lambda t: t.upper(), lambda t: t.lower(), lambda t: t.splitlines(True), lambda t: t.isspace(), lambda t: t.strip()):
            try:
                out.append(fn(s))
            except Exception as e:
                out.append('EXC ' + type(e).__name__)
        return out

    expect = run(v)
    n = len(v)

    def body(a):
        s = ''
        for k in range(n):
            s = s + chr(a[f'c{k}'])
        got = run(s)
        reached()
        for g, e in zip(got, expect):
            if g != e:
                return 'engine: a string helper gives a different result under symbolic execution'
        return ''

    return Harness(body, [(f'c{k}', _Pin(ord(ch))) for k, ch in enumerate(v)] or [('z', _Pin(0))],
                   describe=lambda a: {'text': v}, bounds={'text': v})


def instances(tier):
    out = []
    quick_docs = ['relationships_aliases.dbml', 'relationships_composite.dbml', 'schemas', 'props', 'integration1.dbml']
    all_docs = [os.path.basename(f) for f in _doc_files()] + list(EXTRA_DOCS)
    for d in (quick_docs if tier == 'quick' else all_docs):
        out.append({'name': f'conformance/doc/{d}', 'factory': 'document', 'params': {'which': d}, 'timeout': 600 if tier == 'quick' else 3000,
                    'native_limit': 1, 'module': 'harness.conformance', 'path_timeout': 600})
        if tier != 'quick':
            out.append({'name': f'conformance/doc/{d}/p0.1', 'factory': 'document', 'params': {'which': d, 'pos_frac': 0.1}, 'timeout': 3000,
                        'native_limit': 1, 'module': 'harness.conformance', 'path_timeout': 3000})
    for i in range(len(HELPER_VECTORS)):
        if tier == 'quick' and i % 2 == 1:
            continue
        out.append({'name': f'conformance/helpers/{i}', 'factory': 'helpers', 'params': {'i': i}, 'timeout': 300, 'native_limit': 1,
                    'module': 'harness.conformance'})
    return out
