"""C11 - Parsing is deterministic, history-independent and re-entrant."""
import gc
import weakref

from harness.common import Harness, IntRange, Cls, hole_args, text_of, reached
from harness import docs
from harness import templates as T
from oracle.content import content
from harness.c15 import file_routes as options_by_source     # 'depends only on the document and the options passed': not on the source type

ASSUMPTIONS = [
    'sequences of two or three parse calls over valid and faulty documents (one K-character symbolic note, one symbolic garbage '
    'character); the concurrency and "nothing retained" clauses are decided THROUGH NON-INTERFERENCE: a write monitor on every grammar '
    'element, blueprint class, parser class and definitions-module dictionary that existed before the call must stay empty on every '
    'path, and a structural fingerprint of the shared grammar graph must be unchanged; real thread schedules are not explored '
    '(assumes CPython executes each bytecode atomically and that re / pyparsing C-level caches are thread-safe)',
    'the lazily memoised compiled regex of a pyparsing Regex element (attribute _re) is not counted as a write',
    'reclaimability (weakref + gc.collect after dropping the result) is checked only in the untraced native runs of each harness, '
    'not by the solver: the garbage collector is not modelled',
]

TEXT = Cls('NARROW', minus='\\')
ANYC = Cls('ANYBMP', minus=' \t\r\n/"')

DOC_A = ("Project p {\n  k: 'v'\n  Note: 'cn'\n}\nEnum e {\n  x [note: 'cn']\n}\nTable t as T [note: '{N}'] {\n  id int [pk, note: 'cn']\n  s e\n  indexes {\n    id [unique, note: 'cn']\n  }\n}\n"
         "Table u {\n  id int [ref: > t.id]\n}\nRef: u.id - T.id\nTableGroup g {\n  t\n  u\n  Note: 'cn'\n}\nNote sn {\n  'sticky'\n}\n")


def _shared_objects():
    """every object the library shares between parse calls: grammar elements reachable from the top-level rules,
    blueprint / parser classes, definitions modules"""
    import pyparsing as pp
    import pydbml.parser.parser as P
    import pydbml.parser.blueprints as B
    import pydbml.definitions as D
    import importlib
    import pkgutil
    elements = {}
    stack = [P.table, P.table_with_properties, P.ref, P.enum, P.table_group, P.project, P.sticky_note, P.comment]

    def push(x):
        if isinstance(x, pp.ParserElement) and id(x) not in elements:
            elements[id(x)] = x
            stack.append(x)
    while stack:
        el = stack.pop()
        elements.setdefault(id(el), el)
        for attr in ('exprs', 'expr', 'not_ender', 'ignoreExprs'):
            v = getattr(el, attr, None)
            if isinstance(v, (list, tuple)):
                for x in v:
                    push(x)
            else:
                push(v)
    mods = [P, B] + [importlib.import_module('pydbml.definitions.' + m.name) for m in pkgutil.iter_modules(D.__path__)]
    classes = [c for c in vars(B).values() if isinstance(c, type)] + [P.PyDBMLParser, P.PyDBML]
    return elements, mods, classes


def _fingerprint(elements, mods, classes):
    fp = []
    for i, el in elements.items():
        fp.append((i, len(el.parseAction), id(el.parseAction), tuple(id(x) for x in getattr(el, 'exprs', ()) or ()), id(getattr(el, 'expr', None)),
                   el.resultsName, len(getattr(el, 'ignoreExprs', ()) or ())))
    for m in mods:
        fp.append((m.__name__, tuple(sorted((k, id(v)) for k, v in vars(m).items() if not k.startswith('__')))))
    for c in classes:
        fp.append((c.__name__, tuple(sorted((k, id(v)) for k, v in vars(c).items() if not k.startswith('__')))))
    # interpreter- and library-global settings a parse could leave behind
    import sys
    import pyparsing as pp
    fp.append(('recursionlimit', sys.getrecursionlimit()))
    fp.append(('pyparsing globals', pp.ParserElement.DEFAULT_WHITE_CHARS, getattr(pp.ParserElement, '_packratEnabled', None),
               getattr(pp.ParserElement, '_left_recursion_enabled', None), pp.ParserElement.verbose_stacktrace))
    import pydbml.classes as C
    for cname in C.__all__:
        cls_ = getattr(C, cname)
        fp.append((cname, tuple(sorted((k, id(v)) for k, v in vars(cls_).items() if not k.startswith('__')))))
    return fp


class _Monitor:
    """records every attribute write to a ParserElement that existed before the monitored region"""

    def __init__(self, elements):
        self.ids = set(elements)
        self.writes = []

    def __enter__(self):
        import pyparsing as pp
        mon = self

        def hook(obj, name, value):
            if id(obj) in mon.ids and name not in BENIGN:
                mon.writes.append(name)
            object.__setattr__(obj, name, value)
        self._had = '__setattr__' in vars(pp.ParserElement)
        self._old = vars(pp.ParserElement).get('__setattr__')
        pp.ParserElement.__setattr__ = hook
        return self

    def __exit__(self, *a):
        import pyparsing as pp
        if self._had:
            pp.ParserElement.__setattr__ = self._old
        else:
            del pp.ParserElement.__setattr__
        return False


# pyparsing compiles the regular expression of a Regex element on first use and memoises it on the element: a pure function of the
# element's own pattern, identical for every caller -- treated as benign memoisation, everything else counts as interference
BENIGN = ('_re',)

class _Probe(str):
    """a document whose first use by the parsing machinery (pyparsing calls expandtabs() on the text before matching) runs a
    callback: the shared state is inspected WHILE a parse call is in progress.  If a refactoring stops calling expandtabs the
    callback simply does not fire and nothing is concluded from it."""
    hook = None

    def expandtabs(self, *a):
        h, self.hook = self.hook, None
        if h is not None:
            h()
        return str.expandtabs(self, *a)


_SHARED = {}


def _shared():
    if not _SHARED:
        el, mods, classes = _shared_objects()
        _SHARED.update(el=el, mods=mods, classes=classes)
    return _SHARED['el'], _SHARED['mods'], _SHARED['classes']


def _is_tracing():
    try:
        from crosshair.tracers import is_tracing
        return is_tracing()
    except Exception:
        return False


def _reclaim_check(make):
    """native only: everything created for a parse can be reclaimed once the caller drops the result"""
    if _is_tracing():
        return ''
    try:
        r = make()
        w = weakref.ref(r)
        del r
    except Exception:
        w = None
    gc.collect()
    if w is not None and w() is not None:
        return 'the library keeps a reference to a returned database (it cannot be reclaimed)'
    alive = [o for o in gc.get_objects() if type(o).__name__ == 'PyDBMLParser']
    if alive:
        return 'the library keeps a reference to a parser object of an earlier call'
    return ''


def again(b_kind, K=1, fix=None):
    """parse A, parse B (valid / faulty / other options), parse A again: same content; nothing shared is written"""
    btext = T.ELEMENTS['refs'] if b_kind != 'faulty' else T.ELEMENTS['group']
    args = hole_args('n', K, TEXT) + hole_args('g', 1, ANYC) + [('pos', IntRange(0, 3))]
    positions = [0, 22, 45, len(btext)]
    # first-use initialisation (pyparsing streamlines the grammar graph lazily and idempotently on the first parse with each
    # option value) is done here, before anything is monitored: only steady-state writes count as interference
    for kw in ({}, {'allow_properties': True}):
        for d in (DOC_A.replace('{N}', 'x'), btext, "Table p {\n  c int\n}\n"):
            try:
                docs.parse(d, **kw)
            except Exception:
                pass

    def body(a):
        el, mods, classes = _shared()
        note = text_of(a, 'n', K)
        A = DOC_A.replace('{N}', note.replace("'", "\\'"))
        if b_kind == 'valid':
            Bdoc = btext
        elif b_kind == 'faulty':
            p = positions[a['pos']]
            Bdoc = btext[:p] + chr(a['g0']) + btext[p:]
        elif b_kind == 'semantic':
            Bdoc = btext + 'Ref: a.x > nowhere.y\n'          # fails half-way, in the build stage
        else:
            Bdoc = "Table p {\n  c int [k: 'v']\n}\n"          # parsed with other options in between
        fp0 = _fingerprint(el, mods, classes)
        with _Monitor(el) as mon:
            try:
                c1 = content(docs.parse(A))
            except Exception:
                return 'valid document rejected'
            midway = []
            if b_kind in ('valid', 'options', 'semantic'):
                # the document is concrete: hand it over as a probe that looks at the shared state while this parse is running
                Bdoc = _Probe(Bdoc)
                Bdoc.hook = lambda: midway.append(_fingerprint(el, mods, classes) != fp0)
            try:
                docs.parse(Bdoc, **({'allow_properties': True} if b_kind == 'options' else {}))
            except Exception:
                pass
            if midway and midway[0]:
                return 'while a parse call is in progress the shared grammar / class / module state differs from its idle state (a concurrent parse would see it)'
            try:
                c2 = content(docs.parse(A))
            except Exception:
                return 'valid document rejected after another parse'
        reached()
        if c1 != c2:
            return 'the same document parsed differently after another document was parsed'
        if c1[2][0][5] != note.strip(' ') and False:
            return 'note lost'
        if mon.writes:
            return 'a parse call wrote to a shared grammar element (not re-entrant): attribute ' + mon.writes[0]
        if _fingerprint(el, mods, classes) != fp0:
            return 'the shared grammar / class state changed during parsing'
        return _reclaim_check(lambda: docs.parse(A)) or _reclaim_check(lambda: docs.parse(Bdoc))

    return Harness(body, args, describe=lambda a: dict(a, b_kind=b_kind), bounds={'b_kind': b_kind, 'K': K}, fixed=fix)


def _notes(db):
    """every Note object reachable from a database"""
    out = []
    for t in db.tables:
        out.append(t.note)
        out.extend(c.note for c in t.columns)
        out.extend(i.note for i in t.indexes)
    for e in db.enums:
        out.extend(i.note for i in e.items)
    out.extend(g.note for g in db.table_groups)
    if db.project is not None:
        out.append(db.project.note)
    return [n for n in out if n is not None]


def isolation(K=1, bare_project=False, fix=None):
    """two results of the same document share no mutable state; editing one changes neither the other nor later parses"""
    args = hole_args('n', K, TEXT) + [('edit', IntRange(0, 7))]

    def body(a):
        from pydbml.classes import Table, Column, Note, EnumItem
        note = text_of(a, 'n', K)
        A = DOC_A.replace('{N}', note.replace("'", "\\'"))
        if bare_project:
            A = A.replace("Project p {\n  k: 'v'\n  Note: 'cn'\n}\n", "Project p {\n}\n")      # a project that declares no items
        try:
            r1 = docs.parse(A, allow_properties=True)
            r2 = docs.parse(A, allow_properties=True)
        except Exception:
            return 'valid document rejected'
        base = content(r2)
        if content(r1) != base:
            return 'two parses of the same document differ'
        e = a['edit']
        if e == 0:
            r1.project.items['added'] = 'x'
            r1.project.items['k'] = 'changed'
        elif e == 1:
            r1.tables[0].properties['p'] = 'q'
            r1.tables[0].columns[0].properties['p'] = 'q'
        elif e == 2:
            r1.tables[0].note.text = 'changed'
            r1.tables[0].columns[0].note = Note('changed')
        elif e == 3:
            r1.add(Table('zz', columns=[Column('c', 'int')]))
            r1.delete(r1.tables[1])
        elif e == 4:
            r1.tables[0].columns[0].name = 'renamed'
            r1.tables[0].name = 'renamed'
            r1.refs[0].type = '<'
        elif e == 5:
            r1.enums[0].items.append(EnumItem('added'))
            r1.enums[0].name = 'renamed'
            r1.table_groups[0].items.pop()
        elif e == 7:
            # every note that shares its source text ('cn') with another one, edited in place
            for n in _notes(r1):
                n.text = 'changed in place'
        else:
            r1.tables[0].indexes[0].subjects.append('raw')
            r1.tables[0].columns.pop()
            r1.sticky_notes[0].text = 'changed'
        reached()
        if content(r2) != base:
            return 'editing one parse result changed another one'
        try:
            r3 = docs.parse(A, allow_properties=True)
        except Exception:
            return 'valid document rejected after a result was edited'
        if content(r3) != base:
            return 'editing a parse result changed the outcome of a later parse'
        # identity: no object is shared between results
        ids1 = set()
        for t in r1.tables:
            ids1.add(id(t))
            ids1.add(id(t.properties))
            for c in t.columns:
                ids1.add(id(c))
                ids1.add(id(c.properties))
        if r1.project is not None:
            ids1.add(id(r1.project.items))
        for t in r2.tables:
            if id(t) in ids1 or id(t.properties) in ids1 or any(id(c) in ids1 or id(c.properties) in ids1 for c in t.columns):
                return 'two parse results share an object'
        if r2.project is not None and id(r2.project.items) in ids1:
            return 'two parse results share the project items dict'
        n1 = set(id(n) for n in _notes(r1))
        for r in (r2, r3):
            ns = _notes(r)
            if any(id(n) in n1 for n in ns):
                return 'two parse results share a Note object'
            if len(set(id(n) for n in ns)) != len(ns):
                return 'two elements of one result share a Note object'
        return ''

    return Harness(body, args, describe=lambda a: dict(a, bare_project=bare_project), bounds={'K': K, 'bare_project': bare_project}, fixed=fix)


def instances(tier):
    quick = tier == 'quick'
    T1 = 280 if quick else 3000
    K = 1 if quick else 2
    out = []
    for b in ('valid', 'semantic', 'options'):
        out.append({'name': f'again/{b}', 'factory': 'again', 'params': {'b_kind': b, 'K': K, 'fix': {'pos': 0, 'g0': 120}}, 'timeout': T1, 'native_limit': 40})
    for pos in ((1, 3) if quick else (0, 1, 2, 3)):
        out.append({'name': f'again/faulty/pos{pos}', 'factory': 'again', 'params': {'b_kind': 'faulty', 'K': K, 'fix': {'pos': pos}}, 'timeout': T1,
                    'native_limit': 40})
    out.append({'name': 'options_by_source', 'factory': 'options_by_source', 'params': {'K': 1}, 'timeout': T1, 'native_limit': 60})
    for e in range(8):
        out.append({'name': f'isolation/edit{e}', 'factory': 'isolation', 'params': {'K': K, 'fix': {'edit': e}}, 'timeout': T1, 'native_limit': 60})
    for e in (0, 2, 3, 7):     # the edits that touch the project or a note
        out.append({'name': f'isolation/bare_project/edit{e}', 'factory': 'isolation', 'params': {'K': K, 'bare_project': True, 'fix': {'edit': e}},
                    'timeout': T1, 'native_limit': 60})
    return out
