"""Recipe, harness factory and shared helpers for solver-based checking of PyDBML.

Everything here follows DESIGN.md section 2: harness arguments are int / bool only, symbolic text is a
fixed-length hole of symbolic code points, contracts are icontract contracts (CrossHair's icontract
analysis kind), the grammar is pre-streamlined and declared concrete before tracing starts.
"""
import itertools
import linecache
import os
import random
import sys

import icontract

REPO = os.environ.get('VP_REPO', '/repo')
if sys.path[0:1] != [REPO]:
    # /repo comes from the overlay .pth; VP_REPO (scratch copies for mutant runs only) takes precedence
    sys.path.insert(0, REPO)

import pyparsing as pp  # noqa: E402


# --------------------------------------------------------------------------------------------------
# recipe (DESIGN 2.2)

_prepared = False


def prepare():
    """Pre-streamline the grammar, warm up, and declare grammar elements concrete for CrossHair."""
    global _prepared
    if _prepared:
        return
    from pydbml import PyDBML
    from pydbml.definitions.table import table, table_with_properties
    from pydbml.definitions.reference import ref
    from pydbml.definitions.enum import enum
    from pydbml.definitions.table_group import table_group
    from pydbml.definitions.project import project
    from pydbml.definitions.sticky_note import sticky_note
    for el in (table, table_with_properties, ref, enum, table_group, project, sticky_note):
        el.streamline()
    warm = (
        "Project p {\n k: 'v'\n Note: 'n'\n}\n"
        "Enum e {\n a [note: 'x']\n b\n}\n"
        "Table t as tt [headercolor: #fff, note: 'n'] {\n"
        "  id int [pk, increment, not null, unique, default: 1, note: 'n']\n"
        "  e e [default: 'x']\n  f s.e [default: `now()`, ref: > u.id]\n"
        "  Note: 'tn'\n  indexes {\n    id [unique, type: hash, name: 'i', note: 'n']\n    (id, `e*2`) [pk]\n  }\n}\n"
        "Table u {\n id int\n x int\n}\n"
        "Ref r: t.e > u.x [update: cascade, delete: set null]\n"
        "Ref {\n t.(id, e) <> u.(id, x)\n}\n"
        "TableGroup g [color: #aaa] {\n t\n u\n Note: 'gn'\n}\n"
        "Note sn {\n 'text'\n}\n"
    )
    db = PyDBML(warm)
    db.dbml
    db.sql
    PyDBML("Table t {\n c int [k: 'v']\n p: 'q'\n}\n", allow_properties=True).dbml
    pp.ParserElement.__ch_deep_realize__ = lambda self, memo: self
    _untrace_grammar_setup()
    _prepared = True


def _untrace_grammar_setup():
    """PyDBMLParser._set_syntax copies grammar elements and touches no input text: run the REAL method with
    CrossHair's tracer paused (its only data are the concrete option flag and the grammar singletons)."""
    from pydbml.parser.parser import PyDBMLParser
    from crosshair.tracers import NoTracing, is_tracing
    orig = PyDBMLParser._set_syntax
    if getattr(orig, '_vp_untraced', False):
        return

    def _set_syntax(self):
        if is_tracing():
            with NoTracing():
                return orig(self)
        return orig(self)
    _set_syntax._vp_untraced = True
    PyDBMLParser._set_syntax = _set_syntax


# --------------------------------------------------------------------------------------------------
# character classes: each is (source-of-predicate(var), boundary sample code points)

SURR = "not (0xD800 <= {v} <= 0xDFFF)"


def _rng(*pairs):
    # bitwise connectives on purpose: `a | b` on symbolic booleans builds ONE solver term, `a or b` forks the path
    return lambda v: "(" + " | ".join(
        (f"({v} == {a})" if a == b else f"(({a} <= {v}) & ({v} <= {b}))") for a, b in pairs) + ")"


_NARROW_EXTRA = (0x0A, 0x85, 0xA0, 0xE9, 0x2028)

CLASS_DEFS = {
    # name: (ranges, samples)
    'WORD': (((48, 57), (65, 90), (95, 95), (97, 122)), (48, 57, 65, 90, 95, 97, 122, 101)),
    'LOWER': (((97, 122),), (97, 110, 122)),
    'HEX': (((48, 57), (65, 70), (97, 102)), (48, 57, 65, 70, 97, 102)),
    'WS': (((32, 32), (9, 9), (13, 13)), (32, 9, 13)),
    'ASCII': (((32, 126),), (32, 34, 35, 39, 40, 41, 42, 44, 46, 47, 58, 60, 62, 91, 92, 93, 96, 97, 123, 125, 126)),
    # printable ASCII + newline-free specials used in the quick tier
    'NARROW': (((32, 126), (0x85, 0x85), (0xA0, 0xA0), (0xE9, 0xE9), (0x2028, 0x2028)),
               (32, 34, 39, 46, 47, 58, 92, 96, 97, 123, 125, 126, 0x85, 0xA0, 0xE9, 0x2028)),
    # BMP text: no controls below 0x20, no DEL, no surrogates
    'BMP': (((32, 126), (128, 0xD7FF), (0xE000, 0xFFFF)),
            (32, 34, 39, 46, 47, 58, 92, 96, 97, 123, 125, 126, 0x85, 0xA0, 0xE9, 0x2028, 0x2029, 0x3000, 0xFEFF, 0xFFFF)),
    # everything a str can hold in the BMP (controls included), no surrogates
    'ANYBMP': (((0, 0xD7FF), (0xE000, 0xFFFF)),
               (0, 9, 10, 11, 12, 13, 28, 32, 34, 39, 47, 58, 92, 96, 97, 123, 125, 127, 0x85, 0xA0, 0x2028, 0xFEFF, 0xFFFF)),
    'ANY': (((0, 0xD7FF), (0xE000, 0x10FFFF)),
            (0, 9, 10, 11, 12, 13, 28, 32, 34, 39, 47, 58, 92, 96, 97, 123, 125, 127, 0x85, 0xA0, 0x2028, 0xFEFF, 0xFFFF, 0x10000, 0x10FFFF)),
    'ANYASCII': (((0, 127),), (0, 9, 10, 11, 12, 13, 28, 32, 34, 39, 47, 58, 92, 96, 97, 123, 125, 127)),
}


class Cls:
    """A character class: named base ranges, plus / minus individual code points."""

    def __init__(self, base, minus='', plus=''):
        self.base = base
        self.minus = tuple(sorted(set(ord(c) if isinstance(c, str) else c for c in minus)))
        self.plus = tuple(sorted(set(ord(c) if isinstance(c, str) else c for c in plus)))

    def src(self, v):
        ranges, _ = CLASS_DEFS[self.base]
        s = _rng(*ranges)(v)
        if self.plus:
            s = "(" + s + " | " + " | ".join(f"({v} == {p})" for p in self.plus) + ")"
        for m in self.minus:
            s += f" & ({v} != {m})"
        return "(" + s + ")"

    def contains(self, c):
        ranges, _ = CLASS_DEFS[self.base]
        ok = any(a <= c <= b for a, b in ranges) or c in self.plus
        return ok and c not in self.minus

    def samples(self):
        _, smp = CLASS_DEFS[self.base]
        return [c for c in dict.fromkeys(tuple(smp) + self.plus) if self.contains(c)]

    def describe(self):
        d = self.base
        if self.plus:
            d += '+' + ''.join(f'U+{p:04X}' for p in self.plus)
        if self.minus:
            d += '-' + ''.join(f'U+{m:04X}' for m in self.minus)
        return d


class Enum:
    """A finite alphabet (enumerated, hashed sites): explicit code points."""

    def __init__(self, chars):
        self.cps = tuple(ord(c) if isinstance(c, str) else c for c in chars)

    def src(self, v):
        return "(" + " | ".join(f"({v} == {c})" for c in self.cps) + ")"

    def contains(self, c):
        return c in self.cps

    def samples(self):
        return list(self.cps)

    def describe(self):
        return 'ENUM{' + ''.join(chr(c) for c in self.cps) + '}'


class IntRange:
    def __init__(self, lo, hi):
        self.lo, self.hi = lo, hi

    def src(self, v):
        return f"(({self.lo} <= {v}) & ({v} <= {self.hi}))"

    def contains(self, c):
        return self.lo <= c <= self.hi

    def samples(self):
        return list(range(self.lo, self.hi + 1)) if self.hi - self.lo < 16 else [self.lo, self.hi, (self.lo + self.hi) // 2]

    def describe(self):
        return f'[{self.lo},{self.hi}]'


# --------------------------------------------------------------------------------------------------
# reach counter (vacuity guard) and known-finding regions

class _State:
    reached = 0
    active_regions = frozenset()
    twin = False


def reached():
    """Called by a harness body where the property's final comparison happens."""
    _State.reached += 1


def region_active(name):
    """True while the known finding `name` is listed AND its witness still fails (set by the driver)."""
    return name in _State.active_regions


def set_active_regions(names):
    _State.active_regions = frozenset(names)


# --------------------------------------------------------------------------------------------------
# harness factory

_counter = itertools.count()


class Harness:
    """One checkable condition: an icontract-decorated function over int/bool arguments."""

    def __init__(self, body, args, extra_pre=(), describe=None, bounds=None, ns=None, fixed=None):
        """
        body(a: dict) -> ''  (held) | non-empty str (what failed)
        args: list of (name, domain) ; domain is Cls / Enum / IntRange or the string 'bool'
        extra_pre: list of (argnames tuple, python expression source) evaluated with ns in scope
        describe(a) -> dict: concrete description of the input for samples / replay scripts
        """
        # `fixed`: selectors fanned out by the driver (DESIGN 2.2: at most ~3 selectors stay symbolic per condition)
        self.fixed = dict(fixed or {})
        unknown = set(self.fixed) - {n for n, _ in args}
        if unknown:
            raise ValueError(f'fixed names {unknown} are not arguments')
        raw_body, raw_describe = body, describe or (lambda a: dict(a))
        fx = self.fixed
        self.body = (lambda a: raw_body(dict(a, **fx))) if fx else body
        self.describe = (lambda a: raw_describe(dict(a, **fx))) if fx else raw_describe
        self.args = [x for x in args if x[0] not in fx]
        self.extra_pre = list(extra_pre)
        self.bounds = dict(bounds or {})
        if fx:
            self.bounds['fixed_by_driver'] = dict(fx)
        self.ns = dict(ns or {})
        self.fn = self._compile()

    def _compile(self):
        names = [n for n, _ in self.args]
        sig = ', '.join(f"{n}: {'bool' if d == 'bool' else 'int'}" for n, d in self.args)
        lines = []
        for n, d in self.args:
            if d != 'bool':
                lines.append(f"@icontract.require(lambda {n}: {d.src(n)})")
        for argnames, expr in self.extra_pre:
            lines.append(f"@icontract.require(lambda {', '.join(argnames)}: {expr})")
        lines.append("@icontract.ensure(lambda result: result == '')")
        lines.append(f"def h({sig}):")
        lines.append("    return _run({" + ', '.join(f"'{n}': {n}" for n in names) + "})")
        src = '\n'.join(lines) + '\n'
        fname = f'<vp-harness-{next(_counter)}>'
        linecache.cache[fname] = (len(src), None, src.splitlines(True), fname)
        ns = dict(self.ns)
        ns.update({'icontract': icontract, '_run': self._run})
        exec(compile(src, fname, 'exec'), ns)
        self.source = src
        return ns['h']

    def _run(self, a):
        r = self.body(a)
        if _State.twin:
            return 'twin' if _State.reached else ''
        return r

    # ---- native side ------------------------------------------------------------------------
    def pre_ok(self, a):
        for n, d in self.args:
            if d == 'bool':
                if not isinstance(a[n], bool):
                    return False
            elif not d.contains(a[n]):
                return False
        for argnames, expr in self.extra_pre:
            ns = dict(self.ns)
            ns.update({k: a[k] for k in argnames})
            if not eval(expr, ns):
                return False
        return True

    def native(self, a):
        """Run the body on concrete arguments, untraced.  Returns '' or the failure text."""
        try:
            return self.body(dict(a))
        except Exception as e:  # a harness must not raise: report as failure
            return f'harness body raised {type(e).__name__}: {e}'

    def sample_vectors(self, seed, limit):
        doms = []
        for n, d in self.args:
            doms.append([False, True] if d == 'bool' else d.samples())
        total = 1
        for d in doms:
            total *= len(d)
        names = [n for n, _ in self.args]
        out = []
        if total <= limit:
            for vec in itertools.product(*doms):
                out.append(dict(zip(names, vec)))
        else:
            rnd = random.Random(seed)
            seen = set()
            # boundaries first: each value of each arg once with others at first sample
            for i, d in enumerate(doms):
                for v in d:
                    vec = tuple(v if j == i else dd[0] for j, dd in enumerate(doms))
                    if vec not in seen:
                        seen.add(vec)
                        out.append(dict(zip(names, vec)))
            while len(out) < limit:
                vec = tuple(rnd.choice(d) for d in doms)
                if vec not in seen:
                    seen.add(vec)
                    out.append(dict(zip(names, vec)))
            out = out[:limit]
        return [a for a in out if self.pre_ok(a)]

    def bounds_text(self):
        b = {n: ('bool' if d == 'bool' else d.describe()) for n, d in self.args}
        b.update(self.bounds)
        return b


def text_of(a, prefix, k):
    """Concatenate the hole characters prefix0..prefix{k-1} into a (possibly symbolic) string."""
    s = ''
    for i in range(k):
        s = s + chr(a[f'{prefix}{i}'])
    return s


def hole_args(prefix, k, dom):
    return [(f'{prefix}{i}', dom) for i in range(k)]


# --------------------------------------------------------------------------------------------------
# exception policy shared by parse-side harnesses

def parse_error_types():
    import pyparsing
    return (pyparsing.ParseBaseException,)


def allowed_parse_exceptions():
    """Exceptions parsing may legitimately raise (C08): pyparsing errors, pydbml.exceptions.*, SyntaxError."""
    import pyparsing
    import pydbml.exceptions as ex
    own = tuple(v for v in vars(ex).values() if isinstance(v, type) and issubclass(v, Exception))
    return (pyparsing.ParseBaseException, SyntaxError) + own
