"""C14 - Comments are captured on the element they belong to and are otherwise inert."""
from harness.common import Harness, IntRange, Cls, hole_args, text_of, reached, region_active
from harness import docs
from harness import templates as T
from harness.mutate import batches, base_content
from oracle.content import content, content_without_comments
from oracle import ddl

ASSUMPTIONS = [
    'one or two comments per document; comment bodies are K-character holes over printable text (quotes, braces, DBML / SQL syntax '
    'characters included; "*" and "/" excluded inside block comments); positions: every own-line and end-of-line position of the six base '
    'documents, the start of the document, and the documented inline positions between an element and its settings',
    'nested or unterminated block comments are outside the claim',
]

CMT = Cls('NARROW')
CMT_BLOCK = Cls('NARROW', minus='*/')
TIGHT = Cls('ASCII', minus=' ', plus='é')         # no blank at the edges: the stored comment is the body itself
TIGHT_BLOCK = Cls('ASCII', minus=' */', plus='é')
TIGHT_CR = Cls('ASCII', minus=' ', plus='é\r')    # a carriage return inside a comment (documents with CRLF line ends)


def _positions(text):
    in_comment = set()
    for kind, s_, e_ in T.scan(text):
        if kind == 'comment':
            in_comment.update(range(s_, e_))      # nested comments are outside the claim
    return [-1] + [i for i, ch in enumerate(text) if ch == '\n' and i not in in_comment]


def inert(element, form, batch, K=2, size=6):
    """a comment inserted at an admissible position changes nothing but comment attributes"""
    text = T.ELEMENTS[element]
    nls = _positions(text)
    spans = batches(nls, size)[batch]
    dom = CMT if form in ('eol_line', 'own_line') else CMT_BLOCK
    args = ([('p', IntRange(0, len(spans) - 1))] if len(spans) > 1 else []) + hole_args('b', K, dom)
    base = None

    def build(a):
        p = spans[a['p']] if len(spans) > 1 else spans[0]
        b = text_of(a, 'b', K)
        if form == 'eol_line':
            if p < 0:
                return '//' + b + '\n' + text
            return text[:p] + ' //' + b + text[p:]
        if form == 'own_line':
            return text[:p + 1] + '  //' + b + '\n' + text[p + 1:]
        if form == 'eol_block':
            if p < 0:
                return '/*' + b + '*/\n' + text
            return text[:p] + ' /*' + b + '*/' + text[p:]
        return text[:p + 1] + '/* ' + b[:1] + '\n' + b[1:] + ' */\n' + text[p + 1:]

    state = {}

    def body(a):
        if 'base' not in state:
            state['base'] = content_without_comments(docs.parse(text))
        doc = build(a)
        try:
            db = docs.parse(doc)
        except Exception:
            return 'a comment at an admissible position made the document fail to parse'
        reached()
        if content_without_comments(db) != state['base']:
            return 'a comment changed something other than comment attributes'
        return ''

    return Harness(body, args, describe=lambda a: {'document': build(a)}, bounds={'element': element, 'form': form, 'K': K, 'positions': spans})


INLINE_DOCS = {
    'column': ("Table t {{\n  id int {C} [pk]\n  b int\n}}\n", lambda db: db.tables[0].columns[0].comment),
    'index_single': ("Table t {{\n  id int\n  indexes {{\n    id {C} [unique]\n  }}\n}}\n", lambda db: db.tables[0].indexes[0].comment),
    'index_composite': ("Table t {{\n  id int\n  b int\n  indexes {{\n    (id, b) {C} [unique]\n  }}\n}}\n", lambda db: db.tables[0].indexes[0].comment),
    'enum_item': ("Enum e {{\n  a {C} [note: 'n']\n  b\n}}\n", lambda db: db.enums[0].items[0].comment),
    'ref_short': ("Table t {{\n  id int\n  b int\n}}\nRef: t.id > t.b {C} [delete: cascade]\n", lambda db: db.refs[0].comment),
}


def inline(site, K=2):
    """block comment between an element and its settings list: inert and captured on the element"""
    tmpl, getter = INLINE_DOCS[site]

    def body(a):
        b = text_of(a, 'b', K)
        doc = tmpl.format(C='/*' + b + '*/')
        plain = tmpl.format(C='')
        try:
            db = docs.parse(doc)
            db0 = docs.parse(plain)
        except Exception:
            return 'a block comment before a settings list made the document fail to parse'
        reached()
        if content_without_comments(db) != content_without_comments(db0):
            return 'a comment changed something other than comment attributes'
        got = getter(db)
        if got != b:
            return 'the comment before the settings list is not stored on its element'
        return ''

    return Harness(body, hole_args('b', K, TIGHT_BLOCK), describe=lambda a: {'document': tmpl.format(C='/*' + ''.join(chr(a[f'b{i}']) for i in range(K)) + '*/')},
                   bounds={'site': site, 'K': K})


ATTACH = {
    # kind: (template with {A} = lines above, {T} = trailing part ; getter ; trailing supported)
    'table': ("{A}Table t {{\n  id int\n}}\n", lambda db: db.tables[0].comment, False),
    'enum': ("{A}Enum e {{\n  a\n}}\n", lambda db: db.enums[0].comment, False),
    'enum_item': ("Enum e {{\n  first\n{A}  a{T}\n  b\n}}\n", lambda db: db.enums[0].items[1].comment, True),
    'index': ("Table t {{\n  id int\n  indexes {{\n    id [unique]\n{A}    (id) [pk]{T}\n  }}\n}}\n", lambda db: db.tables[0].indexes[1].comment, True),
    'index_plain': ("Table t {{\n  id int\n  b int\n  indexes {{\n    id [unique]\n{A}    b{T}\n    (id, b)\n  }}\n}}\n", lambda db: db.tables[0].indexes[1].comment, True),
    'ref_short': ("Table t {{\n  id int\n  b int\n}}\n{A}Ref: t.id > t.b{T}\n", lambda db: db.refs[0].comment, True),
    'ref_block': ("Table t {{\n  id int\n  b int\n}}\n{A}Ref r {{\n  t.id > t.b [delete: cascade]{T}\n}}\n", lambda db: db.refs[0].comment, True),
    'project': ("{A}Project p {{\n  k: 'v'\n}}\n", lambda db: db.project.comment, False),
    'group': ("Table t {{\n  id int\n}}\n{A}TableGroup g {{\n  t\n}}\n", lambda db: db.table_groups[0].comment, False),
    'column': ("Table t {{\n  first int\n{A}  id int [pk]{T}\n  b int\n}}\n", lambda db: db.tables[0].columns[1].comment, True),
}


def attachment(kind, K=2):
    """comment above / trailing / both (trailing wins) / two lines above (joined by newline)"""
    tmpl, getter, trailing_ok = ATTACH[kind]
    args = [('above', IntRange(0, 2)), ('trail', 'bool'), ('block', 'bool')] + hole_args('b', K, TIGHT_BLOCK) + hole_args('t', K, TIGHT)

    def build(a):
        b = text_of(a, 'b', K)
        t = text_of(a, 't', K)
        ind = '  ' if kind in ('enum_item', 'column') else ('    ' if kind in ('index', 'index_plain') else '')
        if a['above'] == 0:
            A = ''
        elif a['above'] == 1:
            A = ind + (('/*' + b + '*/') if a['block'] else ('// ' + b)) + '\n'
        else:
            A = ind + '// ' + b + '\n' + ind + '// second\n'
        Tr = (' // ' + t) if (a['trail'] and trailing_ok) else ''
        if a['trail'] and trailing_ok:
            want = t
        elif a['above'] == 1:
            want = b
        elif a['above'] == 2:
            want = b + '\nsecond'
        else:
            want = None
        return tmpl.format(A=A, T=Tr), want

    def body(a):
        doc, want = build(a)
        if region_active('c14_column_comment_above') and kind == 'column' and a['above'] > 0 and not a['trail']:
            return ''
        try:
            db = docs.parse(doc)
        except Exception:
            return 'document with comments rejected'
        reached()
        if getter(db) != want:
            return 'comment is not stored on the element it belongs to'
        return ''

    return Harness(body, args, describe=lambda a: {'document': build(a)[0], 'expected_comment': build(a)[1]}, bounds={'kind': kind, 'K': K})


def render(kind, K=2, cr=False):
    """element with a (possibly two-line) comment built through the API: .dbml re-parses to the same comment, .sql is statement-for-
    statement the SQL without the comment and every comment line is a `--` line"""
    # a carriage return can only end the comment (leading blanks of a comment are not part of it)
    args = [('two', 'bool')] + (hole_args('b', K - 1, TIGHT) + [(f'b{K - 1}', TIGHT_CR)] if cr else hole_args('b', K, TIGHT))

    def build(a, with_comment=True):
        from pydbml import Database
        from pydbml.classes import Table, Column, Enum, EnumItem, Reference, TableGroup, Project, Index
        b = text_of(a, 'b', K)
        cm = (b + '\nline two') if a['two'] else b
        c = cm if with_comment else None
        db = Database()
        en = Enum('e', [EnumItem('x', comment=c if kind == 'enum_item' else None), EnumItem('y')], comment=c if kind == 'enum' else None)
        t = Table('t', columns=[Column('id', 'int', pk=True, comment=c if kind == 'column' else None), Column('b', 'int')],
                  comment=c if kind == 'table' else None)
        t.add_index(Index([t.columns[1]], unique=True, comment=c if kind == 'index' else None))
        t.add_index(Index([t.columns[0], t.columns[1]], pk=True, comment=c if kind == 'pk_index' else None))
        db.add(en)
        db.add(t)
        db.add(Reference('-', [t.columns[0]], [t.columns[1]], inline=True, comment=c if kind == 'inline_ref' else None))
        db.add(Reference('>', [t.columns[1]], [t.columns[0]], comment=c if kind == 'ref' else None))
        db.add(Reference('<>', [t.columns[1]], [t.columns[0]], comment=c if kind == 'm2m_ref' else None))
        db.add(TableGroup('g', [t], comment=c if kind == 'group' else None))
        db.add(Project('p', items={'k': 'v'}, comment=c if kind == 'project' else None))
        return db, cm

    def body(a):
        db, cm = build(a)
        db0, _ = build(a, with_comment=False)
        try:
            d1 = db.dbml
            s1 = db.sql
            s0 = db0.sql
        except Exception as e:
            return 'rendering an element with a comment raised ' + type(e).__name__
        reached()
        # SQL: same statements, comment only as `--` lines
        r1, r0 = ddl.read_or_none(s1), ddl.read_or_none(s0)
        if r1 is None or r0 is None:
            return 'comment text became part of an SQL statement (DDL no longer readable)'
        if r1[0] != r0[0]:
            return 'comment text changed the SQL statements'
        if kind not in ('group', 'project'):
            lines = cm.split('\n')
            emitted = [c.strip() for c in r1[1]]
            for ln in lines:
                if ln.strip() not in emitted:
                    return 'comment line is not emitted as a `--` line in SQL'
        # DBML: re-parse gives the same comment and content
        if kind == 'inline_ref':
            return ''       # an inline reference has no place for a comment in DBML: not claimed
        if region_active('c14_column_comment_above') and kind == 'column':
            return ''
        try:
            db2 = docs.parse(d1)
        except Exception:
            return 'DBML with a comment does not re-parse'
        if content(db2) != content(db):
            return 'comment (or something else) changed on DBML round trip'
        return ''

    return Harness(body, args, describe=lambda a: dict(a, kind=kind, dbml=build(a)[0].dbml), bounds={'kind': kind, 'K': K})


BLOCK_DOCS = {
    'table': '{C}Table t {\n  id int\n}\n',
    'enum': '{C}Enum e {\n  x\n}\n',
    'ref': 'Table t {\n  id int\n}\n{C}Ref: t.id > t.id\n',
    'group': 'Table t {\n  id int\n}\n{C}TableGroup g {\n  t\n}\n',
}


def block_roundtrip(kind):
    """a two-line block comment above an element whose second line starts with a symbolic character (a blank included: block
    comments keep the indentation of their continuation lines): the rendered DBML re-parses to the same comment"""
    args = hole_args('b', 1, TIGHT_BLOCK) + [('c0', Cls('ASCII', minus='*/', plus='é'))] + hole_args('d', 1, TIGHT_BLOCK)

    def build(a):
        return BLOCK_DOCS[kind].replace('{C}', '/* ' + chr(a['b0']) + '\n' + chr(a['c0']) + chr(a['d0']) + ' */\n')

    def body(a):
        try:
            db = docs.parse(build(a))
        except Exception:
            return 'document with a block comment rejected'
        if region_active('c14_block_comment_indented_line') and a['c0'] == 32:
            return ''
        reached()
        el = {'table': db.tables, 'enum': db.enums, 'ref': db.refs, 'group': db.table_groups}[kind][0]
        if el.comment is None or len(el.comment) < 4:
            return 'block comment above the element is not stored on it'
        try:
            db2 = docs.parse(db.dbml)
        except Exception:
            return 'DBML with a comment does not re-parse'
        if content(db2) != content(db):
            return 'comment (or something else) changed on DBML round trip'
        return ''

    return Harness(body, args, describe=lambda a: {'document': build(a)}, bounds={'kind': kind})


def _nb(element, size=6):
    return (len(_positions(T.ELEMENTS[element])) + size - 1) // size


def instances(tier):
    out = []

    def add(name, factory, params, timeout=280, **kw):
        d = {'name': name, 'factory': factory, 'params': params, 'timeout': timeout, 'native_limit': 80}
        d.update(kw)
        out.append(d)

    quick = tier == 'quick'
    T1 = 280 if quick else 3000
    forms = ['eol_line', 'own_line', 'eol_block', 'own_block']
    k = 0
    for ei, element in enumerate(T.ELEMENTS):
        for b in range(_nb(element)):
            for fi, form in enumerate(forms):
                k += 1
                if quick and (k % 5 != 0):
                    continue
                add(f'inert/{element}/{form}/b{b}', 'inert', {'element': element, 'form': form, 'batch': b, 'K': 2 if not quick else 1}, T1)
    for site in INLINE_DOCS:
        add(f'inline/{site}', 'inline', {'site': site, 'K': 2}, T1)
    for kind in ATTACH:
        add(f'attach/{kind}', 'attachment', {'kind': kind, 'K': 1 if quick else 2}, T1)
    for kind in ('table', 'enum', 'enum_item', 'column', 'index', 'pk_index', 'ref', 'inline_ref', 'm2m_ref', 'group', 'project'):
        add(f'render/{kind}', 'render', {'kind': kind, 'K': 1 if quick else 2}, T1)
    for kind in ('table', 'ref', 'enum_item'):
        add(f'render/{kind}/cr', 'render', {'kind': kind, 'K': 2, 'cr': True}, T1)
    for kind in (('table', 'ref') if quick else BLOCK_DOCS):
        add(f'block_roundtrip/{kind}', 'block_roundtrip', {'kind': kind}, T1)
    return out
