"""Base documents for the fault-injection families (C07, C08, C11, C14) and a small scanner that finds their
token boundaries and structural sites.  The scanner works on the CONCRETE template text at harness construction
time (never on symbolic text) and is written from the DBML syntax description, not from pydbml.definitions.
"""
import re

# Each element is self-contained (parses on its own); together they contain every grammar rule.
ELEMENTS = {
    'table': (
        "Table s.users as u [headercolor: #aabbcc, note: 'tn'] {\n"
        "  id int [pk, increment, not null, unique, default: 1, note: 'cn']\n"
        "  name varchar(20) [default: 'x', ref: > s.users.id]\n"
        "  ts \"my type\" [default: `now()`, null]\n"
        "  Note: 'body'\n"
        "  indexes {\n"
        "    (id, `name*2`) [unique, type: hash, name: 'ix', note: 'in']\n"
        "    name [pk]\n"
        "  }\n"
        "}\n"
    ),
    'table2': (
        "Table orders {\n"
        "  id int pk unique\n"
        "  total float [default: 3.5]\n"
        "  flag bool [default: true, primary key]\n"
        "  Note {\n"
        "    'block note'\n"
        "  }\n"
        "}\n"
    ),
    'enum': (
        "Enum s.level {\n"
        "  low [note: 'x']\n"
        "  \"mid dle\"\n"
        "  high\n"
        "}\n"
    ),
    'refs': (
        "Table a {\n"
        "  x int\n"
        "  y int\n"
        "}\n"
        "Table b {\n"
        "  x int [ref: - a.y]\n"
        "  y int\n"
        "}\n"
        "Ref r1: a.x > b.x [update: cascade, delete: set null]\n"
        "Ref {\n"
        "  a.(x, y) <> b.(x, y)\n"
        "}\n"
    ),
    'group': (
        "Table a {\n"
        "  x int\n"
        "}\n"
        "TableGroup g [color: #abc] {\n"
        "  a\n"
        "  Note: 'gn'\n"
        "}\n"
    ),
    'commented': (
        "/* first block */\n"
        "Table a {\n"
        "  x int // trailing\n"
        "  /* inner */\n"
        "  y int\n"
        "}\n"
        "/* second\n"
        "   block */\n"
        "Enum e {\n"
        "  v\n"
        "}\n"
        "// last line\n"
    ),
    'project': (
        "Project p {\n"
        "  db: 'pg'\n"
        "  Note: 'pn'\n"
        "}\n"
        "Note sn {\n"
        "  'sticky'\n"
        "}\n"
    ),
}

KEYWORDS = ['tablegroup', 'table', 'enum', 'ref', 'project', 'note', 'indexes', 'as', 'headercolor', 'color', 'default', 'pk',
            'unique', 'increment', 'not', 'null', 'primary', 'key', 'type', 'name', 'update', 'delete', 'cascade', 'set', 'hash',
            'true']

_TOKEN = re.compile(
    r"(?P<str3>'''(?:\\.|[^\\])*?''')"
    r"|(?P<str1>'(?:\\.|[^'\\\n])*')"
    r"|(?P<qname>\"[^\"\n]*\")"
    r"|(?P<expr>`[^`]*`)"
    r"|(?P<comment>//[^\n]*|/\*.*?\*/)"
    r"|(?P<color>#[0-9a-fA-F]+)"
    r"|(?P<nl>\n)"
    r"|(?P<ws>[ \t\r]+)"
    r"|(?P<word>[A-Za-z0-9_]+)"
    r"|(?P<op><>|[<>\-])"
    r"|(?P<punct>[{}\[\]:,().])", re.S)


def scan(text):
    """-> list of (kind, start, end)"""
    out = []
    pos = 0
    while pos < len(text):
        m = _TOKEN.match(text, pos)
        if not m:
            raise ValueError(f'template scanner stuck at {pos}: {text[pos:pos + 20]!r}')
        out.append((m.lastgroup, m.start(), m.end()))
        pos = m.end()
    return out


def gaps(text):
    """Token boundaries outside text tokens: positions where a fragment can be inserted without landing inside a token.
    Returns list of (position, kind_before, kind_after)."""
    toks = scan(text)
    res = []
    prev = 'start'
    for kind, s, e in toks:
        res.append((s, prev, kind))
        prev = kind
    res.append((len(text), prev, 'end'))
    # a boundary between two whitespace-ish tokens is the same place as its neighbour: keep one per distinct position
    seen = set()
    out = []
    for p, a, b in res:
        if p not in seen:
            seen.add(p)
            out.append((p, a, b))
    return out


def structural_sites(text):
    """Characters whose replacement must be rejected unless it is the same character:
    delimiters { } [ ] : , ( ) outside text tokens and the quote characters that open / close literals.
    Returns list of (position, char, tag)."""
    out = []
    for kind, s, e in scan(text):
        if kind == 'punct' and text[s] != '.':
            out.append((s, text[s], 'delimiter'))
        elif kind in ('str1', 'qname', 'expr'):
            out.append((s, text[s], 'open-quote'))
            out.append((e - 1, text[e - 1], 'close-quote'))
        elif kind == 'str3':
            out.append((e - 1, text[e - 1], 'close-quote'))
    return out


def keyword_sites(text):
    """Letters of keywords / closed-set literals: a replacement is only acceptable if it is the same letter in either case.
    Returns list of (position, char, word)."""
    out = []
    for kind, s, e in scan(text):
        if kind == 'word' and text[s:e].lower() in KEYWORDS:
            # identifiers in the templates never spell a keyword, except `name` the column (skipped by context below)
            before = text[max(0, s - 2):s]
            after = text[e:e + 1]
            w = text[s:e].lower()
            if w == 'name' and after != ':':
                continue
            if w == 'key' or w == 'null' or w == 'not' or w == 'set' or w == 'primary':
                pass
            for p in range(s, e):
                out.append((p, text[p], w))
    return out


def hex_sites(text):
    out = []
    for kind, s, e in scan(text):
        if kind == 'color':
            for p in range(s + 1, e):
                out.append((p, text[p]))
    return out


def operator_sites(text):
    return [(s, text[s:e]) for kind, s, e in scan(text) if kind == 'op' and e - s == 1]
