"""C12 - All documented ways of supplying the source give the same database."""
import io

from harness.common import Harness, IntRange, Cls, hole_args, text_of, reached
from oracle.content import content

ASSUMPTIONS = [
    'disk I/O and byte decoding are stubbed: `open` inside pydbml.parser.parser is replaced by a stub that yields the (symbolic) text and '
    'records the encoding argument (which must be "utf8"); file objects are TextIOWrapper instances whose read() yields the text. '
    'Real files, decoding errors and OS errors are outside the claim; the encoding ARGUMENT is inside',
    'the first character of the text is symbolic over the whole BMP (so it may or may not be U+FEFF), plus a K-character note hole',
]

ANYC = Cls('ANYBMP')
TEXT = Cls('NARROW', minus="\\'")


class _FakeFile(io.TextIOWrapper):
    """a TextIOWrapper whose read() yields a given text (no buffer behind it)"""

    def __new__(cls, text):
        self = io.TextIOWrapper.__new__(cls)
        return self

    def __init__(self, text):
        self._vp_text = text

    def read(self, *a):
        return self._vp_text

    def close(self):
        pass

    def __del__(self):
        pass


class _Opened:
    def __init__(self, text):
        self.text = text

    def __enter__(self):
        return self

    def __exit__(self, *a):
        return False

    def read(self):
        return self.text


def _routes(text, calls, **kw):
    """every documented entry point; each returns (outcome, value) lazily"""
    import pathlib
    import pydbml.parser.parser as pp_mod
    from pydbml import PyDBML

    def stub_open(file, *a, **k):
        calls.append((k.get('encoding', a[2] if len(a) > 2 else None)))
        return _Opened(text)
    pp_mod.open = stub_open
    path = pathlib.Path('/nonexistent/doc.dbml')
    routes = [
        ('PyDBML(str)', lambda: PyDBML(text, **kw)),
        ('PyDBML(Path)', lambda: PyDBML(path, **kw)),
        ('PyDBML(file)', lambda: PyDBML(_FakeFile(text), **kw)),
        ('PyDBML.parse(str)', lambda: PyDBML.parse(text, **kw)),
        ('PyDBML().parse(str)', lambda: PyDBML().parse(text, **kw)),
    ]
    if not kw:
        routes += [
            ('parse_file(str path)', lambda: PyDBML.parse_file('/nonexistent/doc.dbml')),
            ('parse_file(Path)', lambda: PyDBML.parse_file(path)),
            ('parse_file(file)', lambda: PyDBML.parse_file(_FakeFile(text))),
        ]
    return routes


def _run(routes):
    out = []
    for name, fn in routes:
        try:
            db = fn()
            out.append((name, 'ok', db))
        except Exception as e:
            out.append((name, 'raise', type(e)))
    return out


def routes_agree(K=1, options=False):
    args = hole_args('c', 1, ANYC) + hole_args('t', K, TEXT) + [('lead', 'bool')]

    def body(a):
        import pydbml.parser.parser as pp_mod
        from pydbml.database import Database
        c0 = chr(a['c0'])
        txt = text_of(a, 't', K)
        tail = ("Table t {\n  c int [note: '" + txt + "'" + (", k: 'v'" if options else '') + "]\n}\n")
        text = (c0 if a['lead'] else '') + tail
        calls = []
        kw = {'allow_properties': True} if options else {}
        try:
            res = _run(_routes(text, calls, **kw))
        finally:
            if 'open' in pp_mod.__dict__:
                del pp_mod.open
        reached()
        for enc in calls:
            if enc != 'utf8':
                return 'a file route does not open the file as UTF-8'
        first = res[0]
        for r in res[1:]:
            if r[1] != first[1]:
                return 'entry points disagree on accepting the document: ' + first[0] + ' vs ' + r[0]
            if first[1] == 'raise' and r[2] is not first[2]:
                return 'entry points raise different errors'
        if first[1] == 'ok':
            if not isinstance(first[2], Database):
                return 'constructor did not return a Database'
            c_first = content(first[2])
            for r in res[1:]:
                if not isinstance(r[2], Database):
                    return r[0] + ' did not return a Database'
                if content(r[2]) != c_first:
                    return 'entry points give different content: ' + first[0] + ' vs ' + r[0]
                if options and r[2].allow_properties is not True:
                    return 'option not applied on route ' + r[0]
            if options and (first[2].allow_properties is not True or first[2].tables[0].columns[0].properties != {'k': 'v'}):
                return 'option not applied'
        # a leading BOM is ignored on every route: same outcome as the text without it
        if a['lead'] and a['c0'] == 0xFEFF:
            calls2 = []
            try:
                res2 = _run(_routes(tail, calls2, **kw))
            finally:
                if 'open' in pp_mod.__dict__:
                    del pp_mod.open
            for r, r2 in zip(res, res2):
                if r[1] != r2[1]:
                    return 'a byte-order mark changes whether ' + r[0] + ' accepts the document'
                if r[1] == 'ok' and content(r[2]) != content(r2[2]):
                    return 'a byte-order mark changes the result of ' + r[0]
            if res2[0][1] != 'ok':
                return 'base document rejected'
        return ''

    return Harness(body, args, describe=lambda a: dict(a, options=options), bounds={'K': K, 'options': options})


BAD = ['int5', 'int0', 'float0', 'false', 'true', 'bytes', 'bytes_empty', 'list', 'list_empty', 'tuple_empty', 'dict_empty', 'object',
       'bytearray', 'stringio']


def source_types():
    """every source type other than str / Path / text file is refused with TypeError; '' is a (valid, empty) document"""
    args = [('kind', IntRange(0, len(BAD) - 1)), ('with_opts', 'bool')]

    def body(a):
        from pydbml import PyDBML
        from pydbml.database import Database
        v = {'int5': 5, 'int0': 0, 'float0': 0.0, 'false': False, 'true': True, 'bytes': b'Table t {\n c int\n}', 'bytes_empty': b'',
             'list': ['x'], 'list_empty': [], 'tuple_empty': (), 'dict_empty': {}, 'object': object(), 'bytearray': bytearray(b'x'),
             'stringio': io.StringIO('Table t {\n c int\n}')}[BAD[a['kind']]]
        kw = {'allow_properties': True} if a['with_opts'] else {}
        reached()
        try:
            r = PyDBML(v, **kw)
        except TypeError:
            pass
        except Exception:
            return 'a wrong source type is refused with something else than TypeError'
        else:
            return 'a source that is neither str, Path nor text file was accepted'
        e = PyDBML('', **kw)
        if not isinstance(e, Database) or len(e.tables) != 0:
            return 'the empty string is a document: PyDBML("") must return an (empty) Database like the other routes'
        if content(PyDBML.parse('')) != content(e):
            return 'empty document differs between routes'
        return ''

    return Harness(body, args, describe=lambda a: {'source_kind': BAD[a['kind']], 'with_options': a['with_opts']}, bounds={'kinds': BAD})


def renderer_option():
    """renderer classes passed to the constructor / parse arrive in the database on every route that accepts them"""
    args = [('which', IntRange(0, 2))]

    def body(a):
        import pydbml.parser.parser as pp_mod
        from pydbml.renderer.base import BaseRenderer

        class MySQL(BaseRenderer):
            model_renderers = {}

            @classmethod
            def render_db(cls, db):
                return 'MY SQL'

        class MyDBML(BaseRenderer):
            model_renderers = {}

            @classmethod
            def render_db(cls, db):
                return 'MY DBML'
        kw = [{'sql_renderer': MySQL}, {'dbml_renderer': MyDBML}, {'sql_renderer': MySQL, 'dbml_renderer': MyDBML}][a['which']]
        calls = []
        try:
            res = _run(_routes('Table t {\n  c int\n}\n', calls, **kw))
        finally:
            if 'open' in pp_mod.__dict__:
                del pp_mod.open
        reached()
        for name, st, db in res:
            if st != 'ok':
                return 'route ' + name + ' rejected a valid document'
            if 'sql_renderer' in kw and (db.sql_renderer is not MySQL or db.sql != 'MY SQL'):
                return 'sql_renderer not applied on route ' + name
            if 'dbml_renderer' in kw and (db.dbml_renderer is not MyDBML or db.dbml != 'MY DBML'):
                return 'dbml_renderer not applied on route ' + name
        return ''

    return Harness(body, args, describe=lambda a: dict(a), bounds={})


def instances(tier):
    quick = tier == 'quick'
    T1 = 280 if quick else 3000
    out = [
        {'name': 'routes/K1', 'factory': 'routes_agree', 'params': {'K': 1}, 'timeout': T1, 'native_limit': 60},
        {'name': 'routes/options/K1', 'factory': 'routes_agree', 'params': {'K': 1, 'options': True}, 'timeout': T1, 'native_limit': 60},
        {'name': 'source_types', 'factory': 'source_types', 'params': {}, 'timeout': T1, 'native_limit': 60},
        {'name': 'renderer_option', 'factory': 'renderer_option', 'params': {}, 'timeout': T1, 'native_limit': 10},
    ]
    if not quick:
        out.append({'name': 'routes/K2', 'factory': 'routes_agree', 'params': {'K': 2}, 'timeout': T1, 'native_limit': 60})
    return out
