"""Fault injection into the base documents of harness/templates.py: a K-character symbolic fragment replaces a span
(empty span = insertion) selected by a symbolic position index from a batch of spans."""
from harness.common import Harness, IntRange, hole_args, text_of
from harness import templates as T
from harness import docs

_BASE = {}


def base_content(element, **kw):
    """content of the unmodified element, computed natively once per process (outside tracing when called at build time)"""
    from oracle.content import content
    key = (element, tuple(sorted(kw.items())))
    if key not in _BASE:
        db = docs.parse(T.ELEMENTS[element], **kw)
        _BASE[key] = content(db)
    return _BASE[key]


def batches(items, size):
    return [items[i:i + size] for i in range(0, len(items), size)]


def mutation(element, spans, K, dom, judge, extra_bounds=None, first_dom=None):
    """spans: list of (start, end, info).  judge(a, span, g, outcome) -> '' | failure ;
    outcome = ('ok', db) | ('raise', exception)."""
    text = T.ELEMENTS[element]
    args = []
    if len(spans) > 1:
        args.append(('p', IntRange(0, len(spans) - 1)))
    for i in range(K):
        args.append((f'g{i}', first_dom if (i == 0 and first_dom is not None) else dom))

    def doc_of(a):
        sp = spans[a['p']] if len(spans) > 1 else spans[0]
        g = text_of(a, 'g', K)
        return sp, g, text[:sp[0]] + g + text[sp[1]:]

    def body(a):
        sp, g, doc = doc_of(a)
        try:
            db = docs.parse(doc)
            outcome = ('ok', db)
        except Exception as e:
            outcome = ('raise', e)
        return judge(a, sp, g, outcome)

    def describe(a):
        sp, g, doc = doc_of(a)
        return {'element': element, 'span': [sp[0], sp[1]], 'replaced': text[sp[0]:sp[1]], 'by': g, 'site': sp[2], 'document': doc}

    b = {'element': element, 'spans': [[s[0], s[1], str(s[2])] for s in spans], 'K': K}
    b.update(extra_bounds or {})
    return Harness(body, args, describe=describe, bounds=b)
