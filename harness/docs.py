"""Writers of DBML surface syntax from (possibly symbolic) values, and small document helpers.

Written from the DBML language description (docs/ and the dbml.org syntax the README points to), not from
the grammar modules: string literals take backslash escapes, single/double quoted ones are single-line,
triple-quoted ones may span lines.
"""


def _esc(t, quote):
    out = ''
    for ch in t:
        if ch == '\\':
            out = out + '\\\\'
        elif ch == quote:
            out = out + '\\' + quote
        elif ch == '\n':
            out = out + '\\n'
        else:
            out = out + ch
    return out


def q_single(t):
    return "'" + _esc(t, "'") + "'"


def q_double(t):
    return '"' + _esc(t, '"') + '"'


def q_triple(t):
    out = ''
    for ch in t:
        if ch == '\\':
            out = out + '\\\\'
        elif ch == "'":
            out = out + "\\'"
        else:
            out = out + ch
    return "'''" + out + "'''"


def quote(t, style):
    if style == 'single':
        return q_single(t)
    if style == 'double':
        return q_double(t)
    return q_triple(t)


def qname(n):
    """Double-quoted identifier (names cannot contain a double quote: no escape exists)."""
    return '"' + n + '"'


def only_blank(t):
    for ch in t:
        if ch != ' ' and ch != '\t' and ch != '\n':
            return False
    return True


def has_char(t, c):
    for ch in t:
        if ch == c:
            return True
    return False


def has_any(t, chars):
    for ch in t:
        for c in chars:
            if ch == c:
                return True
    return False


def parse(text, **kw):
    from pydbml import PyDBML
    return PyDBML(text, **kw)


def has_unicode_linebreak(t):
    """a character other than \\n that str.splitlines treats as a line boundary (one solver fork per character)"""
    for ch in t:
        o = ord(ch)
        if (o == 0x85) | (o == 0x2028) | (o == 0x2029) | (o == 0x0B) | (o == 0x0C) | (o == 0x0D) | ((0x1C <= o) & (o <= 0x1E)):
            return True
    return False


def ascii_blanks_only(t):
    """True when no character of t is a non-ASCII or control whitespace (NBSP, U+0085, U+2028, tab, ...)"""
    for ch in t:
        o = ord(ch)
        if ((o == 0x85) | (o == 0xA0) | (o == 0x1680) | ((0x2000 <= o) & (o <= 0x200A)) | (o == 0x2028) | (o == 0x2029)
                | (o == 0x202F) | (o == 0x205F) | (o == 0x3000) | (o == 9) | ((0x0B <= o) & (o <= 0x0D)) | ((0x1C <= o) & (o <= 0x1F))):
            return False
    return True


def has_unicode_blank_line(t):
    """a non-empty line made only of whitespace characters, at least one of them not a space or tab (U+00A0, U+0085, U+2028 ...)"""
    for line in t.split('\n'):
        if len(line) == 0:
            continue
        allws = True
        exotic = False
        for ch in line:
            o = ord(ch)
            ws = ((o == 32) | (o == 9) | ((0x0B <= o) & (o <= 0x0D)) | ((0x1C <= o) & (o <= 0x1F)) | (o == 0x85) | (o == 0xA0) | (o == 0x1680)
                  | ((0x2000 <= o) & (o <= 0x200A)) | (o == 0x2028) | (o == 0x2029) | (o == 0x202F) | (o == 0x205F) | (o == 0x3000))
            if not ws:
                allws = False
                break
            if not ((o == 32) | (o == 9)):
                exotic = True
        if allws and exotic:
            return True
    return False
