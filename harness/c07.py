"""C07 - Malformed text is never accepted: the whole input must be valid DBML."""
from harness.common import Cls, reached, region_active
from harness import templates as T
from harness.mutate import mutation, batches, base_content
from oracle.content import content

THOROUGH_STRIDE = 9      # the registered thorough tier runs every 9th instance of each family of the full cross product (vp_check.py --tier full runs all)

ASSUMPTIONS = [
    'one fault per document; six base documents that together contain every grammar rule; inserted fragment of K characters '
    '(quick 1-2, thorough up to 3) at every token boundary outside text tokens; single-character substitution at every structural '
    'delimiter, quote, keyword letter, colour digit and reference operator',
    'insertion oracle is "accepted => the result differs from the base content and no top-level list shrank" (an accepted fragment '
    'must be accounted for; nothing may be skipped or truncated); substitution oracle is "accepted => the replacement is the '
    'same delimiter / the same letter up to case / a hex digit / a reference operator" with the expected content',
    'blanks, newline, "/" and the double quote are excluded from inserted fragments (they can form legal whitespace, comments or an empty name)',
    'a replaced keyword letter may legally turn the text into another document (new column, new project field): then the content must differ',
]

GARBAGE = Cls('ANYBMP', minus=' \t\r\n/"')        # '""' is an empty name: legal and void after `Ref`
GARBAGE0 = Cls('ANYBMP', minus=' \t\r\n/"\ufeff')
ANYC = Cls('ANYBMP')


def _lists(c):
    # content = (project, enums, tables, refs, groups, stickies)
    return (0 if c[0] is None else 1, len(c[1]), len(c[2]), len(c[3]), len(c[4]), len(c[5]))


def _gaps(text):
    """token boundaries, minus those touching a number: a leading / trailing zero there is a legal spelling of the same value"""
    toks = T.scan(text)
    numeric_edges = set()
    for kind, s, e in toks:
        if kind == 'word' and text[s:e].isdigit():
            numeric_edges.add(s)
            numeric_edges.add(e)
    # the end of a `//` comment is still inside the comment: a fragment appended there is comment text
    line_comment_ends = {e for kind, s_, e in toks if kind == 'comment' and text[s_:s_ + 2] == '//'}
    inside_block = set()
    for kind, s_, e in toks:
        if kind == 'comment':
            inside_block.update(range(s_ + 1, e))
    return [g for g in T.gaps(text) if g[0] not in numeric_edges and g[0] not in line_comment_ends and g[0] not in inside_block]


def _closed_sets(got):
    """closed literal sets stay closed whatever was accepted"""
    for t in got[2]:
        for ix in t[9]:
            if ix[4] is not None and ix[4] not in ('brin', 'btree', 'gin', 'gist', 'hash', 'spgist'):
                return 'an unknown index type was accepted'
    for r in got[3]:
        if r[1] not in ('>', '<', '-', '<>'):
            return 'an unknown reference operator was accepted'
        for act in (r[5], r[6]):
            if act is not None and act not in ('no action', 'restrict', 'cascade', 'set null', 'set default'):
                return 'an unknown reference action was accepted'
    return ''


def insertion(element, batch, K, size=4):
    text = T.ELEMENTS[element]
    spans = [(p, p, f'{a}|{b}') for p, a, b in batches(_gaps(text), size)[batch]]
    base = base_content(element)
    nbase = _lists(base)

    def judge(a, sp, g, outcome):
        reached()
        if outcome[0] == 'raise':
            return ''
        got = content(outcome[1])
        if got == base:
            return 'a document with a stray fragment was accepted and the fragment was silently ignored'
        n = _lists(got)
        for x, y in zip(n, nbase):
            if x < y:
                return 'a document with a stray fragment was accepted and part of the document was dropped'
        return _closed_sets(got)

    return mutation(element, spans, K, GARBAGE, judge, first_dom=GARBAGE0, extra_bounds={'family': 'insertion'})


def operator_growth(element):
    """one more operator character right after (or before) every reference operator: only the documented operators may result"""
    from harness.common import Enum
    text = T.ELEMENTS[element]
    spans = []
    for p, op in T.operator_sites(text):
        spans.append((p + 1, p + 1, 'after operator ' + op))
        spans.append((p, p, 'before operator ' + op))
    base = base_content(element)

    def judge(a, sp, g, outcome):
        reached()
        if outcome[0] == 'raise':
            return ''
        got = content(outcome[1])
        if got == base:
            return 'an extra operator character was silently ignored'
        return _closed_sets(got)

    return mutation(element, spans, 1, Enum('<>-=~'), judge, extra_bounds={'family': 'operator growth'})


FOREIGN = [
    ("Table t {\n  a int\n  indexes {\n    a [{S}]\n  }\n}\n", ['primary key', 'increment', 'not null', 'null', 'default: 1', 'ref: > t.a', 'headercolor: #fff', 'delete: cascade']),
    ("Table t {\n  a int [{S}]\n}\n", ['type: hash', "name: 'x'", 'headercolor: #fff', 'update: cascade', 'color: #fff']),
    ("Table t [{S}] {\n  a int\n}\n", ['pk', 'unique', 'type: hash', 'color: #fff', 'increment', 'delete: cascade', "name: 'x'"]),
    ("Table t {\n  a int\n}\nRef: t.a > t.a [{S}]\n", ['unique', 'pk', "note: 'n'", 'delete: setnull', 'update: noaction', 'delete: setdefault', 'delete: set  null',
                                                     'update: set', 'type: hash', 'delete: cascade restrict']),
    ("Enum e {\n  a [{S}]\n}\n", ['pk', 'unique', 'default: 1', "name: 'x'"]),
    ("Table t {\n  a int\n}\nTableGroup g [{S}] {\n  t\n}\n", ['headercolor: #fff', 'pk', "name: 'x'"]),
    ("Table t {\n  a int\n  indexes {\n    a [type: {S}]\n  }\n}\n", ['b tree', 'tree', 'hash2', 'sp gist', 'ginx', '']),
]


def foreign_setting(ctx):
    """a setting that exists only in another context (or a run-together / incomplete literal) is an unknown setting here"""
    from harness.common import Harness, IntRange
    from harness import docs
    tmpl, settings = FOREIGN[ctx]

    def body(a):
        doc = tmpl.replace('{S}', settings[a['s']])
        reached()
        try:
            docs.parse(doc)
        except Exception:
            return ''
        return 'a setting that does not belong to this list was accepted'

    return Harness(body, [('s', IntRange(0, len(settings) - 1))], describe=lambda a: {'document': tmpl.replace('{S}', settings[a['s']])},
                   bounds={'context': tmpl, 'settings': settings})


PROBE = 'Enum pe {\n  one\n}\nTable probe {\n  q int [ref: > probe.q]\n}\n'


def no_leak(element):
    """a document that fails after some complete elements, then a valid document: nothing of the rejected one is in the result"""
    from harness.common import Harness, IntRange
    from harness import docs
    text = T.ELEMENTS[element]
    gaps = [g[0] for g in _gaps(text)]
    # fault positions: the last token boundaries of the document (everything before them has been matched) and its very end
    cand = sorted(set(gaps[-6:] + [len(text)]))[-4:]
    want = content(docs.parse(PROBE))

    def body(a):
        p = cand[a['pos']]
        bad = text[:p] + chr(a['g0']) + text[p:]
        try:
            docs.parse(bad)
            return ''           # accepted: judged by the insertion family
        except Exception:
            pass
        reached()
        try:
            got = content(docs.parse(PROBE))
        except Exception:
            return 'a valid document was rejected after a rejected one'
        if got != want:
            return 'elements of a rejected document leaked into the result of a later parse'
        return ''

    return Harness(body, [('pos', IntRange(0, len(cand) - 1)), ('g0', GARBAGE0)],
                   describe=lambda a: {'rejected_document': text[:cand[a['pos']]] + chr(a['g0']) + text[cand[a['pos']]:], 'then': PROBE},
                   bounds={'element': element, 'positions': cand, 'family': 'no leak'})


def substitution(element, family, batch, size=4):
    text = T.ELEMENTS[element]
    if family == 'struct':
        sites = [(p, p + 1, f'{tag} {ch!r}') for p, ch, tag in T.structural_sites(text)]
    elif family == 'keyword':
        sites = [(p, p + 1, f'letter {ch!r} of {w}') for p, ch, w in T.keyword_sites(text)]
    elif family == 'hex':
        sites = [(p, p + 1, f'hex digit {ch!r}') for p, ch in T.hex_sites(text)]
    else:
        sites = [(p, p + 1, f'operator {op!r}') for p, op in T.operator_sites(text)]
    spans = batches(sites, size)[batch]
    base = base_content(element)

    def judge(a, sp, g, outcome):
        reached()
        if outcome[0] == 'raise':
            return ''
        orig = text[sp[0]]
        c = ord(g[0])
        o = ord(orig)
        got = content(outcome[1])
        if family == 'struct':
            if c != o:
                return 'a structural character was replaced and the document was still accepted'
            return '' if got == base else 'unchanged document parsed differently'
        if family == 'keyword':
            lo = o | 32
            if (c == lo) | (c == lo - 32):
                return '' if got == base else 'keyword case changed the parsed content'
            # another character: the text may have become a different legal document (e.g. a new column or project field),
            # but it must not be accepted as if nothing had changed, and closed literal sets stay closed
            if got == base:
                if region_active('c07_unicode_upper_fold') and (((c == 0x131) & (lo == 105)) | ((c == 0x17F) & (lo == 115))):
                    return ''
                return 'a keyword letter was replaced by something else and the document was accepted unchanged'
            for t in got[2]:
                for ix in t[9]:
                    if ix[4] is not None and ix[4] not in ('brin', 'btree', 'gin', 'gist', 'hash', 'spgist'):
                        return 'an unknown index type was accepted'
            for r in got[3]:
                for act in (r[5], r[6]):
                    if act is not None and act not in ('no action', 'restrict', 'cascade', 'set null', 'set default'):
                        return 'an unknown reference action was accepted'
            return ''
        if family == 'hex':
            if not (((48 <= c) & (c <= 57)) | ((65 <= c) & (c <= 70)) | ((97 <= c) & (c <= 102))):
                return 'a colour with a non-hex digit was accepted'
            return ''
        if not ((c == 60) | (c == 62) | (c == 45)):
            return 'an unknown reference operator was accepted'
        return ''

    return mutation(element, spans, 1, ANYC, judge, extra_bounds={'family': 'substitution/' + family})


def _count(element, family, size=4):
    text = T.ELEMENTS[element]
    n = {'insertion': len(_gaps(text)), 'struct': len(T.structural_sites(text)), 'keyword': len(T.keyword_sites(text)),
         'hex': len(T.hex_sites(text)), 'op': len(T.operator_sites(text))}[family]
    return (n + size - 1) // size


def instances(tier):
    out = []
    quick = tier == 'quick'
    T1 = 280 if quick else 3000
    stride = {'insertion': 7, 'struct': 5, 'keyword': 9, 'hex': 1, 'op': 1}
    for ei, element in enumerate(T.ELEMENTS):
        nb = _count(element, 'insertion')
        for b in range(nb):
            if quick and (((b + ei) % stride['insertion'] != 0 and b != nb - 1) or (element == 'table' and b == 0)):
                continue      # (the last batch holds the end-of-input position; table/b0 needs > 280 s: thorough only)
            out.append({'name': f'ins/{element}/b{b}/K1', 'factory': 'insertion', 'params': {'element': element, 'batch': b, 'K': 1},
                        'timeout': T1, 'native_limit': 60})
            if not quick:
                out.append({'name': f'ins/{element}/b{b}/K2', 'factory': 'insertion', 'params': {'element': element, 'batch': b, 'K': 2},
                            'timeout': T1, 'native_limit': 80})
        for fam in ('struct', 'keyword', 'hex', 'op'):
            nb = _count(element, fam)
            for b in range(nb):
                if quick and (b + ei) % stride[fam] != 0:
                    continue
                out.append({'name': f'sub/{fam}/{element}/b{b}', 'factory': 'substitution',
                            'params': {'element': element, 'family': fam, 'batch': b}, 'timeout': T1, 'native_limit': 60})
    for ctx in range(len(FOREIGN)):
        out.append({'name': f'foreign_setting/{ctx}', 'factory': 'foreign_setting', 'params': {'ctx': ctx}, 'timeout': T1, 'native_limit': 20})
    for element in (('refs', 'group') if quick else T.ELEMENTS):
        out.append({'name': f'no_leak/{element}', 'factory': 'no_leak', 'params': {'element': element}, 'timeout': T1, 'native_limit': 60})
    for element in ('refs', 'table'):
        out.append({'name': f'opgrow/{element}', 'factory': 'operator_growth', 'params': {'element': element}, 'timeout': T1, 'native_limit': 60})
    if quick:
        have = {i['name'] for i in out}
        for b in range(1, _count('commented', 'insertion'), 2):      # faults between / inside commented regions
            nm = f'ins/commented/b{b}/K1'
            if nm not in have:
                out.append({'name': nm, 'factory': 'insertion', 'params': {'element': 'commented', 'batch': b, 'K': 1}, 'timeout': T1,
                            'native_limit': 60})
        out.append({'name': 'ins/enum/b2/K2', 'factory': 'insertion', 'params': {'element': 'enum', 'batch': 2, 'K': 2}, 'timeout': T1,
                    'native_limit': 80})
    else:
        for element in ('enum', 'project'):
            for b in range(0, _count(element, 'insertion'), 3):
                out.append({'name': f'ins/{element}/b{b}/K3', 'factory': 'insertion', 'params': {'element': element, 'batch': b, 'K': 3},
                            'timeout': 6000, 'native_limit': 80})
    return out
