"""C09 - The container stays consistent under any sequence of add, delete and rename.

Histories of D symbolic operation codes over a universe of pre-built objects with engineered clashes; an
independent list-based reference model is updated alongside and compared after EVERY step.
"""
from harness.common import Harness, IntRange, reached, region_active

ASSUMPTIONS = [
    'history depth D (quick 3, thorough 4) over a fixed universe of objects with engineered clashes; longer histories are outside the claim',
    'operation codes are path-enumerated by CrossHair (solver decides feasibility); object names are concrete (they are hashed)',
]


def _universe():
    from pydbml.classes import Table, Column, Enum, Reference, TableGroup, Project, StickyNote, Note
    u = {}
    u['T0'] = Table('a', columns=[Column('id', 'int')])
    u['T1'] = Table('a', columns=[Column('id', 'int')])                      # same full name (and content) as T0
    u['T2'] = Table('b', alias='public.a', columns=[Column('id', 'int')])    # alias equal to T0's full name
    u['T3'] = Table('c', schema='s', alias='x', columns=[Column('id', 'int')])
    u['T4'] = Table('d', alias='x', columns=[Column('id', 'int')])           # alias clash with T3
    u['T5'] = Table('x', schema='s', columns=[Column('k', 'int')])           # full name s.x; no clash with alias x
    u['E0'] = Enum('e', ['a'])
    u['E1'] = Enum('e', ['b'])                                               # same schema+name, other content
    u['E2'] = Enum('e', ['a'], schema='s')
    u['G0'] = TableGroup('g', [u['T0']])
    u['G1'] = TableGroup('g', [u['T2']])                                     # same group name
    u['G2'] = TableGroup('h', [u['T0']])
    u['R0'] = Reference('>', u['T0'].columns[0], u['T2'].columns[0])
    u['R1'] = Reference('>', u['T0'].columns[0], u['T2'].columns[0])         # identical reference
    u['R2'] = Reference('<', u['T3'].columns[0], u['T4'].columns[0], name='r')
    u['R3'] = Reference('>', u['T0'].columns[0], u['T2'].columns[0], inline=True)  # equal up to inline-ness
    # a reference between tables that are never contained; one of them (T1) is an equal twin of T0, which may be contained
    u['R4'] = Reference('>', u['T1'].columns[0], u['T5'].columns[0])
    u['S0'] = StickyNote('n', 'text')
    u['P0'] = Project('p')
    u['P1'] = Project('q')
    u['X0'] = Note('not a top-level element')
    u['X1'] = 42
    return u


KIND = {'T': 'tables', 'E': 'enums', 'G': 'table_groups', 'R': 'refs', 'S': 'sticky_notes'}

# rename values: (attribute, value)
RENAMES = {
    'name_b': ('name', 'b'), 'name_z': ('name', 'z'), 'schema_s': ('schema', 's'), 'alias_x': ('alias', 'x'),
    'alias_none': ('alias', None), 'alias_pa': ('alias', 'public.a'),
}

MENUS = {
    'tables': ['add T0', 'add T1', 'add T2', 'add T3', 'add T4', 'add T5', 'del T0', 'del T3', 'del T1', 'addt T0', 'delt T0'],
    'rename': ['add T0', 'add T2', 'add T3', 'ren T0 name_b', 'ren T0 name_z', 'ren T0 schema_s', 'ren T3 alias_none',
               'ren T0 alias_x', 'del T0', 'del T3', 'add T1'],
    'enums_groups': ['add E0', 'add E1', 'add E2', 'del E0', 'del E2', 'add G0', 'add G1', 'add G2', 'del G0', 'del G1',
                     'adde E0', 'addg G0'],
    'refs': ['add T0', 'add T2', 'add R0', 'add R1', 'add R2', 'add R3', 'del R0', 'del R2', 'del T0', 'addr R0', 'add T3', 'add R4'],
    'misc': ['add P0', 'add P1', 'del P0', 'del P1', 'add S0', 'add X0', 'add X1', 'del X1', 'del S0', 'add T0', 'del T0', 'addp P1'],
}


class _Model:
    """Independent reference model: ordered lists of the contained objects, by identity."""

    def __init__(self):
        self.tables = []
        self.enums = []
        self.table_groups = []
        self.refs = []
        self.sticky_notes = []
        self.project = None

    def has(self, lst, o):
        for x in lst:
            if x is o:
                return True
        return False

    def keys_of(self, t):
        ks = [t.schema + '.' + t.name]
        if t.alias:
            ks.append(t.alias)
        return ks

    def lookup(self, key):
        return [t for t in self.tables if key in self.keys_of(t)]


def _same_ref(a, b):
    def same_cols(x, y):
        return len(x) == len(y) and all(p is q for p, q in zip(x, y))
    return (a.type == b.type and same_cols(a.col1, b.col1) and same_cols(a.col2, b.col2) and a.name == b.name
            and a.on_update == b.on_update and a.on_delete == b.on_delete and a.comment == b.comment)


def _snapshot(db, u):
    return (
        tuple(id(t) for t in db.tables), tuple(id(x) for x in db.refs), tuple(id(x) for x in db.enums),
        tuple(id(x) for x in db.table_groups), tuple(id(x) for x in db.sticky_notes), id(db.project),
        tuple(sorted((k, id(v)) for k, v in db.table_dict.items())),
        tuple((k, id(getattr(o, 'database', None))) for k, o in u.items() if not isinstance(o, int)),
        tuple((k, o.name, o.schema, o.alias) for k, o in u.items() if k[0] == 'T'),
    )


def _must_reject(model, db, op, o, u):
    """Does the property REQUIRE this operation to be rejected?  (None = either outcome acceptable)"""
    verb = op[0]
    if verb in ('add', 'addt', 'adde', 'addg', 'addr', 'addp'):
        k = op[1][0]
        if k == 'X':
            return True
        if k == 'T':
            if model.has(model.tables, o):
                return True
            mine = model.keys_of(o)
            for t in model.tables:
                for key in model.keys_of(t):
                    if key in mine:
                        return True
            return False
        if k == 'E':
            return any(e is o or (e.name == o.name and e.schema == o.schema) for e in model.enums)
        if k == 'G':
            return any(g is o or g.name == o.name for g in model.table_groups)
        if k == 'R':
            if any(r is o or _same_ref(r, o) for r in model.refs):
                return True
            touching = any(model.has(model.tables, c.table) for c in list(o.col1) + list(o.col2))
            return not touching
        if k == 'S':
            return None if model.has(model.sticky_notes, o) else False
        if k == 'P':
            return False
    if verb in ('del', 'delt'):
        k = op[1][0]
        if k == 'X':
            return True
        if k == 'S':
            return None if model.has(model.sticky_notes, o) else True
        if k == 'P':
            return model.project is not o
        lst = getattr(model, KIND[k])
        if k == 'T' and not model.has(lst, o):
            # structurally equal twin of a contained table counts as present for the implementation's equality
            return None if any(t == o for t in lst) else True
        if k == 'R' and not model.has(lst, o):
            return None if any(_same_ref(r, o) for r in lst) else True
        return not model.has(lst, o)
    return None


def _apply_model(model, op, o):
    verb, k = op[0], op[1][0]
    if verb.startswith('add'):
        if k == 'P':
            model.project = o
        else:
            getattr(model, KIND[k]).append(o)
    else:
        if k == 'P':
            model.project = None
        else:
            lst = getattr(model, KIND[k])
            for i, x in enumerate(lst):
                if x is o:
                    lst.pop(i)
                    return
            for i, x in enumerate(lst):   # equal twin
                if (x == o) if k != 'R' else _same_ref(x, o):
                    lst.pop(i)
                    return


def _invariants(model, db, u, names=True):
    if len(db.tables) != len(model.tables) or any(a is not b for a, b in zip(db.tables, model.tables)):
        return 'db.tables differs from the tables added and not deleted (order or membership)'
    if [t for t in db] != list(db.tables) or any(db[i] is not t for i, t in enumerate(model.tables)):
        return 'iteration / positional lookup disagrees with the table list'
    for name, attr in (('enums', 'enums'), ('table_groups', 'table_groups'), ('refs', 'refs'), ('sticky_notes', 'sticky_notes')):
        got, exp = getattr(db, attr), getattr(model, attr)
        if len(got) != len(exp) or any(a is not b for a, b in zip(got, exp)):
            return 'db.' + name + ' differs from the reference model'
    if db.project is not model.project:
        return 'db.project differs from the reference model'
    # name / alias lookup: exactly the contained tables under their current names
    keys = set()
    for o in u.values():
        if type(o).__name__ == 'Table':
            keys.add(o.schema + '.' + o.name)
            if o.alias:
                keys.add(o.alias)
    keys.update(('public.a', 'public.b', 'public.z', 's.a', 's.c', 's.x', 'x', 'public.d', 'nope'))
    for key in (sorted(keys) if names else ()):
        exp = model.lookup(key)
        try:
            got = db[key]
        except KeyError:
            got = None
        if len(exp) == 0 and got is not None:
            return 'lookup of ' + key + ' finds a table that is not (or no longer) in the database under that name'
        if len(exp) == 1 and got is not exp[0]:
            return 'lookup of ' + key + ' does not find the contained table with that name / alias'
        if len(exp) > 1:
            return 'two contained tables answer to ' + key
    # back-pointers
    for k, o in u.items():
        if isinstance(o, int) or k[0] == 'X':
            continue
        if k[0] == 'P':
            inside = model.project is o
        else:
            inside = model.has(getattr(model, KIND[k[0]]), o)
        if inside and o.database is not db:
            return k + ' is contained but does not point back to the database'
        if not inside and o.database is not None:
            return k + ' is not contained but still points to a database'
    return ''


def history(menu, D, first=-1):
    """D symbolic operation codes from MENUS[menu]; model comparison after every step."""
    ops = [tuple(s.split()) for s in MENUS[menu]]
    n = len(ops)
    from pydbml.exceptions import DatabaseValidationError

    def body(a):
        from pydbml import Database
        u = _universe()
        db = Database()
        model = _Model()
        renamed_contained = False
        for step in range(D):
            code = first if (step == 0 and first >= 0) else a[f'o{step}']
            op = ops[code]
            verb = op[0]
            o = u[op[1]]
            before = _snapshot(db, u)
            if verb == 'ren':
                attr, val = RENAMES[op[2]]
                setattr(o, attr, val)
                if model.has(model.tables, o):
                    renamed_contained = True
            else:
                must = _must_reject(model, db, op, o, u)
                try:
                    if verb == 'add':
                        ret = db.add(o)
                    elif verb == 'del':
                        ret = db.delete(o)
                    elif verb == 'addt':
                        ret = db.add_table(o)
                    elif verb == 'delt':
                        ret = db.delete_table(o)
                    elif verb == 'adde':
                        ret = db.add_enum(o)
                    elif verb == 'addg':
                        ret = db.add_table_group(o)
                    elif verb == 'addr':
                        ret = db.add_reference(o)
                    elif verb == 'addp':
                        ret = db.add_project(o)
                    ok = True
                except DatabaseValidationError:
                    ok = False
                except Exception:
                    if region_active('c09_rename_contained_table') and renamed_contained:
                        return ''
                    return 'operation escaped with an exception other than the validation error'
                if region_active('c09_rename_contained_table') and renamed_contained:
                    # the open finding concerns the NAME INDEX only (stale keys): name-based rules and deletions of tables are not
                    # judged any more, identity-based ones still are (the same object can never be contained twice)
                    if op[1][0] == 'T':
                        if verb.startswith('add') and model.has(model.tables, o):
                            must = True
                        elif verb.startswith('add'):
                            must = None
                        else:
                            return ''
                if ok:
                    if must is True:
                        return 'an operation that must be rejected was accepted'
                    if verb.startswith('add') and ret is not o:
                        return 'add did not return the added object'
                    _apply_model(model, op, o)
                else:
                    if must is False:
                        return 'a legal operation was rejected'
                    if _snapshot(db, u) != before:
                        return 'a rejected operation left a trace in the database'
            reached()
            bad = _invariants(model, db, u, names=not (region_active('c09_rename_contained_table') and renamed_contained))
            if bad:
                return bad
        return ''

    def describe(a):
        seq = []
        for step in range(D):
            code = first if (step == 0 and first >= 0) else a[f'o{step}']
            seq.append(' '.join(ops[code]))
        return {'menu': menu, 'history': seq}

    args = [(f'o{i}', IntRange(0, n - 1)) for i in range(D) if not (i == 0 and first >= 0)]
    return Harness(body, args, describe=describe, bounds={'menu': menu, 'D': D, 'ops': MENUS[menu]})


# ---- table level ---------------------------------------------------------------------------------
T_OPS = ['addc C2', 'addc C0', 'delc C0', 'delc C2', 'delc 0', 'delc 1', 'delc 7', 'addi I0', 'addi I1', 'addi IF', 'deli I0',
         'deli I1', 'deli 0', 'deli 3', 'addc N0', 'addi N1', 'addi I2', 'addi IM', 'deli I2', 'deli 1']


def table_history(D, first=-1):
    ops = [tuple(s.split()) for s in T_OPS]
    n = len(ops)

    def body(a):
        from pydbml.classes import Table, Column, Index
        from pydbml.exceptions import ColumnNotFoundError, IndexNotFoundError
        C0, C1, C2 = Column('c0', 'int'), Column('c1', 'int'), Column('c2', 'int')
        t = Table('t', columns=[C0, C1])
        other = Table('o', columns=[Column('f', 'int')])
        F = other.columns[0]
        # I2 has the same content as I0 (indexes are located by equality, like every delete_* of the container);
        # IM mixes one of the table's own columns with a foreign one
        u = {'C0': C0, 'C1': C1, 'C2': C2, 'I0': Index([C0]), 'I1': Index([C1, '`x`']), 'IF': Index([F]), 'I2': Index([C0]),
             'IM': Index([C0, F]), 'N0': 'not a column', 'N1': 'not an index'}
        same = lambda x, y: x is y or (any(x is u[k] for k in ('I0', 'I2')) and any(y is u[k] for k in ('I0', 'I2')))
        mcols = [C0, C1]
        midx = []
        for step in range(D):
            code = first if (step == 0 and first >= 0) else a[f'o{step}']
            verb, arg = ops[code]
            o = int(arg) if arg.isdigit() else u[arg]
            before = (tuple(id(c) for c in t.columns), tuple(id(i) for i in t.indexes),
                      tuple(id(getattr(x, 'table', None)) for x in u.values() if not isinstance(x, str)))
            if verb == 'addc':
                must = isinstance(o, str)
                exp = None
            elif verb == 'delc':
                must = (o >= len(mcols)) if isinstance(o, int) else not any(c is o for c in mcols)
            elif verb == 'addi':
                must = isinstance(o, str) or any(type(s).__name__ == 'Column' and not any(s is c for c in mcols) for s in o.subjects)
            else:
                must = (o >= len(midx)) if isinstance(o, int) else not any(same(i, o) for i in midx)
            try:
                if verb == 'addc':
                    t.add_column(o)
                elif verb == 'delc':
                    ret = t.delete_column(o)
                elif verb == 'addi':
                    t.add_index(o)
                else:
                    ret = t.delete_index(o)
                ok = True
            except (ColumnNotFoundError, IndexNotFoundError, IndexError, TypeError):
                ok = False
            except Exception:
                return 'table operation escaped with an undocumented exception'
            if ok:
                if must:
                    return 'a table operation that must be refused was accepted'
                if verb == 'addc':
                    if any(c is o for c in mcols):
                        return ''   # adding the same column object twice: not covered by the property
                    mcols.append(o)
                elif verb == 'delc':
                    victim = mcols[o] if isinstance(o, int) else o
                    mcols = [c for c in mcols if c is not victim]
                    if ret is not victim:
                        return 'delete_column returned another object'
                elif verb == 'addi':
                    if any(i is o for i in midx):
                        return ''
                    midx.append(o)
                else:
                    victim = midx[o] if isinstance(o, int) else [i for i in midx if same(i, o)][0]
                    midx = [i for i in midx if i is not victim]
                    if ret is not victim:
                        return 'delete_index did not return the index it removed'
            else:
                if not must:
                    return 'a legal table operation was refused'
                after = (tuple(id(c) for c in t.columns), tuple(id(i) for i in t.indexes),
                         tuple(id(getattr(x, 'table', None)) for x in u.values() if not isinstance(x, str)))
                if after != before:
                    return 'a refused table operation left a trace'
            reached()
            if len(t.columns) != len(mcols) or any(x is not y for x, y in zip(t.columns, mcols)):
                return 'column list differs from the reference model'
            if len(t.indexes) != len(midx) or any(x is not y for x, y in zip(t.indexes, midx)):
                return 'index list differs from the reference model'
            if [c for c in t] != list(t.columns):
                return 'iteration differs from the column list'
            for k in ('C0', 'C1', 'C2'):
                c = u[k]
                inside = any(c is x for x in mcols)
                if inside and c.table is not t:
                    return 'contained column does not point to its table'
                if not inside and c.table is not None:
                    return 'removed column still points to a table'
                first_named = None
                for x in mcols:
                    if x.name == c.name:
                        first_named = x
                        break
                got = t.get(c.name)
                if got is not first_named:
                    return 'lookup by column name disagrees with the column list'
                if first_named is not None and t[c.name] is not first_named:
                    return 'getitem by name disagrees with the column list'
            for i, c in enumerate(mcols):
                if t[i] is not c:
                    return 'positional lookup disagrees with the column list'
            if t.get(len(mcols)) is not None:
                return 'get past the end does not return the default'
            for k in ('I0', 'I1', 'IF', 'I2', 'IM'):
                ix = u[k]
                inside = any(ix is x for x in midx)
                if inside and ix.table is not t:
                    return 'contained index does not point to its table'
                if not inside and ix.table is not None:
                    return 'removed or refused index points to a table'
        return ''

    def describe(a):
        return {'history': [T_OPS[first if (s == 0 and first >= 0) else a[f'o{s}']] for s in range(D)]}

    args = [(f'o{i}', IntRange(0, n - 1)) for i in range(D) if not (i == 0 and first >= 0)]
    return Harness(body, args, describe=describe, bounds={'D': D, 'ops': T_OPS})


def instances(tier):
    out = []
    if tier == 'quick':
        for menu in MENUS:
            for f in range(len(MENUS[menu])):
                out.append({'name': f'db/{menu}/D3/first{f}', 'factory': 'history', 'params': {'menu': menu, 'D': 3, 'first': f},
                            'timeout': 240, 'native_limit': 200})
        for f in range(len(T_OPS)):
            if T_OPS[f] == 'addc C0':
                continue   # re-adding a contained column object is not covered by the property: would be a vacuous prefix
            out.append({'name': f'table/D3/first{f}', 'factory': 'table_history', 'params': {'D': 3, 'first': f}, 'timeout': 240,
                        'native_limit': 200})
    else:
        for menu in MENUS:
            for f in range(len(MENUS[menu])):
                out.append({'name': f'db/{menu}/D4/first{f}', 'factory': 'history', 'params': {'menu': menu, 'D': 4, 'first': f},
                            'timeout': 2400, 'native_limit': 400})
        for f in range(len(T_OPS)):
            if T_OPS[f] == 'addc C0':
                continue
            out.append({'name': f'table/D4/first{f}', 'factory': 'table_history', 'params': {'D': 4, 'first': f}, 'timeout': 2400,
                        'native_limit': 400})
    return out
