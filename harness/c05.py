"""C05 - A parsed database is one consistently linked object graph."""
from harness.common import Harness, IntRange, Cls, hole_args, text_of, reached
from harness import docs

ASSUMPTIONS = [
    'documents with three tables in two schemas (two of them share the bare name), aliases, enums of the same name in two schemas, '
    'inline / short / block / composite references, an index block, a table group, a sticky note and a project; the way each table '
    'is addressed (schema.name, bare, alias) is a symbolic selector per endpoint; one column name is a symbolic hole',
]

U_ADDR = ['s.users', 'U']                        # the table s.users (alias U)
P_ADDR = ['users', 'public.users']               # the table public.users (no alias)
O_ADDR = ['orders', 'public.orders', 'O']        # the table public.orders (alias O)


def graph(form, K=1, fix=None):
    """form: which reference syntaxes are present: 'inline', 'short', 'block', 'all'"""
    args = [('a_u', IntRange(0, 1)), ('a_p', IntRange(0, 1)), ('a_o', IntRange(0, 2)), ('g_u', IntRange(0, 1)), ('enum_q', 'bool')] + \
        hole_args('n', K, Cls('WORD'))

    def build(a):
        cn = 'c' + text_of(a, 'n', K)
        U, P, O = U_ADDR[a['a_u']], P_ADDR[a['a_p']], O_ADDR[a['a_o']]
        inline = (' [ref: > ' + U + '.id]') if form in ('inline', 'all') else ''
        doc = (
            'Enum s.kind {\n  a\n}\nEnum kind {\n  b\n}\n'
            'Table s.users as U {\n  id int [pk]\n  k ' + ('s.kind' if a['enum_q'] else 'kind') + '\n  k2 kind\n  Note: \'tn\'\n}\n'
            'Table users {\n  id int\n  uid int' + inline + '\n}\n'
            'Table orders as O {\n  id int\n  ' + cn + ' int [note: \'cn\']\n  indexes {\n    (id, ' + cn + ') [unique, note: \'in\']\n    ' + cn + '\n    `x+1`\n  }\n}\n'
        )
        if form in ('short', 'all'):
            doc += 'Ref r1: ' + O + '.' + cn + ' > ' + U + '.id\n'
        if form in ('block', 'all'):
            doc += 'Ref {\n  ' + O + '.(' + cn + ', id) - ' + P + '.(id, uid)\n}\n'      # left side not in declaration order
        doc += 'TableGroup g {\n  ' + U_ADDR[a['g_u']] + '\n  ' + O + '\n  Note: \'gn\'\n}\nNote sn {\n  \'x\'\n}\nNote sn {\n  \'y\'\n}\nProject p {\n  Note: \'pn\'\n}\n'
        return doc, cn

    def body(a):
        doc, cn = build(a)
        try:
            db = docs.parse(doc)
        except Exception:
            return 'well-formed document rejected'
        reached()
        if len(db.tables) != 3:
            return 'wrong number of tables'
        tu, tp, to = db.tables
        if (tu.schema, tu.name, tp.schema, tp.name, to.name) != ('s', 'users', 'public', 'users', 'orders'):
            return 'tables out of order'
        # lookup by index, full name and alias returns the same objects
        if db[0] is not tu or db['s.users'] is not tu or db['U'] is not tu or db['public.users'] is not tp or db[1] is not tp \
                or db['public.orders'] is not to or db['O'] is not to or db[2] is not to:
            return 'lookup by index / full name / alias does not return the same Table objects'
        for t in db.tables:
            if t.database is not db:
                return 'table does not point back to the database'
            for c in t.columns:
                if c.table is not t:
                    return 'column does not point back to its table'
                if c.note.parent is not c:
                    return 'column note does not point back to its column'
            if t.note.parent is not t:
                return 'table note does not point back to its table'
            for ix in t.indexes:
                if ix.table is not t:
                    return 'index does not point back to its table'
                if ix.note.parent is not ix:
                    return 'index note does not point back to its index'
                for sj in ix.subjects:
                    if type(sj).__name__ == 'Column' and not any(sj is c for c in t.columns):
                        return 'index subject is not the owning table\'s own Column object'
        # enum-typed columns hold the Enum objects
        e_s, e_p = db.enums
        if e_s.database is not db or e_p.database is not db:
            return 'enum does not point back to the database'
        if tu.columns[1].type is not (e_s if a['enum_q'] else e_p) or tu.columns[2].type is not e_p:
            return 'enum-typed column does not hold the declared Enum object'
        for e in db.enums:
            for it in e.items:
                if it.note.parent is not it:
                    return 'enum item note does not point back to its item'
        # references: endpoints are the tables' own Column objects
        oc = to.columns[1]
        if oc.name != cn:
            return 'column name lost'
        expect = []
        if form in ('inline', 'all'):
            expect.append(('>', [tp.columns[1]], [tu.columns[0]], True))
        if form in ('short', 'all'):
            expect.append(('>', [oc], [tu.columns[0]], False))
        if form in ('block', 'all'):
            expect.append(('-', [oc, to.columns[0]], [tp.columns[0], tp.columns[1]], False))
        if len(db.refs) != len(expect):
            return 'wrong number of references'
        for r, (typ, c1, c2, inl) in zip(db.refs, expect):
            if r.type != typ or bool(r.inline) != inl:
                return 'reference kind / inline flag wrong'
            if len(r.col1) != len(c1) or any(x is not y for x, y in zip(r.col1, c1)):
                return 'left endpoint is not the very Column object of the addressed table (wrong table, copy, or wrong column)'
            if len(r.col2) != len(c2) or any(x is not y for x, y in zip(r.col2, c2)):
                return 'right endpoint is not the very Column object of the addressed table (wrong table, copy, or wrong column)'
            if r.database is not db:
                return 'reference does not point back to the database'
        # get_refs: exactly the references whose left side is that table, in order
        for t in db.tables:
            mine = [r for r in db.refs if r.col1[0].table is t]
            got = t.get_refs()
            if len(got) != len(mine) or any(x is not y for x, y in zip(got, mine)):
                return 'Table.get_refs does not return exactly the references whose left side is that table'
            for c in t.columns:
                cm = [r for r in mine if any(c is x for x in r.col1)]
                cg = c.get_refs()
                if len(cg) != len(cm) or any(x is not y for x, y in zip(cg, cm)):
                    return 'Column.get_refs does not return exactly the references starting at that column'
        # every non-many-to-many reference has exactly one SQL key holder
        from pydbml.renderer.sql.default.table import get_references_for_sql
        for r in db.refs:
            holders = [t for t in db.tables if any(x is r for x in get_references_for_sql(t))]
            want = r.col2[0].table if r.type == '<' else r.col1[0].table
            if len(holders) != 1 or holders[0] is not want:
                return 'reference is not assigned to exactly one table as its SQL key holder'
        # group, sticky note, project
        g = db.table_groups[0]
        if g.database is not db or len(g.items) != 2 or g.items[0] is not tu or g.items[1] is not to:
            return 'table group does not hold the Table objects'
        if len(db.sticky_notes) != 2 or db.sticky_notes[0].text != 'x' or db.sticky_notes[1].text != 'y':
            return 'sticky notes are not the declared ones'
        if db.sticky_notes[0].database is not db or db.sticky_notes[1].database is not db:
            return 'sticky note does not point back to the database'
        if db.project.database is not db or db.project.note.parent is not db.project:
            return 'project / project note back-pointer wrong'
        if g.note is not None and g.note.text != 'gn':
            return 'group note lost'
        return ''

    def describe(a):
        doc, _ = build(a)
        return {'document': doc}

    return Harness(body, args, describe=describe, bounds={'form': form, 'K': K}, fixed=fix)


def alias_same_as_name(K=1):
    """a non-public table aliased to its own bare name: references, group items and lookup by that alias reach it"""
    args = [('with_public', 'bool'), ('inline', 'bool')] + hole_args('n', K, Cls('WORD'))

    def body(a):
        cn = 'c' + text_of(a, 'n', K)
        # with_public: another table in the public schema carries the alias's spelling as its bare name
        doc = ('Table core.items as items {\n  id int\n  ' + cn + ' int\n}\n'
               + ('Table items {\n  z int\n}\n' if a['with_public'] else '') +
               'Table other {\n  x int' + (' [ref: > items.id]' if a['inline'] else '') + '\n}\n'
               + ('' if a['inline'] else 'Ref: other.x > items.' + cn + '\n') + 'TableGroup g {\n  items\n  other\n}\n')
        try:
            db = docs.parse(doc)
        except Exception:
            return 'well-formed document rejected'
        reached()
        t = db.tables[0]
        if t.alias != 'items' or db['items'] is not t or db['core.items'] is not t:
            return 'alias equal to the bare table name is lost or does not resolve'
        r = db.refs[0]
        want = t.columns[0] if a['inline'] else t.columns[1]
        if r.col2[0] is not want or r.col1[0] is not db.tables[-1].columns[0]:
            return 'reference addressed by alias is not bound to the aliased table'
        if db.table_groups[0].items[0] is not t:
            return 'group item addressed by alias is not the aliased table'
        if a['with_public']:
            tp = db.tables[1]
            if tp.schema != 'public' or tp.name != 'items' or db['public.items'] is not tp or db[1] is not tp or db[0] is not t:
                return 'lookup by full name / index does not return the same Table objects'
            if r.col1[0] is not db.tables[2].columns[0]:
                return 'reference start is not the declaring column'
        return ''

    return Harness(body, args, describe=lambda a: dict(a), bounds={'K': K})


def instances(tier):
    out = []
    quick = tier == 'quick'
    T1 = 280 if quick else 3000
    fixes = [{'g_u': 0, 'enum_q': True}, {'g_u': 1, 'enum_q': False}]
    for form in ('inline', 'short', 'block', 'all'):
        for j, f in enumerate(fixes):
            if quick and form != 'all' and j == 1:
                continue
            out.append({'name': f'graph/{form}/f{j}', 'factory': 'graph', 'params': {'form': form, 'K': 1 if quick else 2, 'fix': f},
                        'timeout': T1, 'native_limit': 60})
    out.append({'name': 'alias_same_as_name', 'factory': 'alias_same_as_name', 'params': {'K': 1 if quick else 2}, 'timeout': T1, 'native_limit': 60})
    return out
