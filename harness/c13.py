"""C13 - Free text survives: notes normalise idempotently, no text breaks its literal."""
from harness.common import Harness, Cls, hole_args, text_of, reached, region_active
from harness import docs
from oracle.content import content, first_difference, note_text
from oracle.norm import norm, norm_equiv
from oracle import ddl

THOROUGH_STRIDE = 2      # the registered thorough tier runs every 2nd instance of each family (vp_check.py --tier full runs all; the full set was run once: DESIGN 10.10)

ASSUMPTIONS = [
    'text length per site bounded by K (quick K<=2..3, thorough K<=4); one text-bearing site symbolic per instance',
    'tabs are outside the text classes (parse_string expands tabs before matching: not DBML-expressible text)',
    'norm-agreement (stored == norm(text)) is asserted only for texts whose blanks are ASCII space/newline; for other '
    'Unicode whitespace only idempotence and round trip are asserted (the property does not say whether U+00A0 is indentation)',
]

# ---- text-bearing sites -------------------------------------------------------------------------
# name: (template with {Q}, getter, is_note, parse kwargs)
SITES = {
    'table_note_settings': ("Table t [note: {Q}] {{\n  c int\n}}\n", lambda db: db.tables[0].note.text, True, {}),
    'table_note_inline': ("Table t {{\n  c int\n  Note: {Q}\n}}\n", lambda db: db.tables[0].note.text, True, {}),
    'table_note_block': ("Table t {{\n  c int\n  Note {{\n    {Q}\n  }}\n}}\n", lambda db: db.tables[0].note.text, True, {}),
    'column_note': ("Table t {{\n  c int [note: {Q}]\n  d int\n}}\n", lambda db: db.tables[0].columns[0].note.text, True, {}),
    'index_note': ("Table t {{\n  c int\n  indexes {{\n    c [note: {Q}]\n  }}\n}}\n", lambda db: db.tables[0].indexes[0].note.text, True, {}),
    'enum_item_note': ("Enum e {{\n  a [note: {Q}]\n  b\n}}\n", lambda db: db.enums[0].items[0].note.text, True, {}),
    'group_note': ("Table t {{\n  c int\n}}\nTableGroup g {{\n  t\n  Note: {Q}\n}}\n", lambda db: note_text(db.table_groups[0].note), True, {}),
    'project_note': ("Project p {{\n  Note: {Q}\n}}\n", lambda db: db.project.note.text, True, {}),
    'sticky_note': ("Note n {{\n  {Q}\n}}\n", lambda db: db.sticky_notes[0].text, True, {}),
    'project_field': ("Project p {{\n  k: {Q}\n}}\n", lambda db: db.project.items['k'], False, {}),
    'table_property': ("Table t {{\n  c int\n  k: {Q}\n}}\n", lambda db: db.tables[0].properties['k'], False, {'allow_properties': True}),
    'column_property': ("Table t {{\n  c int [k: {Q}]\n}}\n", lambda db: db.tables[0].columns[0].properties['k'], False, {'allow_properties': True}),
    'string_default': ("Table t {{\n  c int [default: {Q}]\n}}\n", lambda db: db.tables[0].columns[0].default, False, {}),
    'index_name': ("Table t {{\n  c int\n  indexes {{\n    c [name: {Q}]\n  }}\n}}\n", lambda db: db.tables[0].indexes[0].name, False, {}),
}
SETTINGS_NOTE_SITES = ('column_note', 'index_note', 'enum_item_note')
RAW_QUOTE_SITES = ('index_name', 'project_field')

TXT_Q = Cls('NARROW', minus='\\')            # quick: printable ASCII + a few specials, no backslash
TXT_NL = Cls('NARROW', minus='\\', plus='\n')
TXT_BS = Cls('NARROW')                         # with backslash
WIDE = Cls('BMP', plus='\n')
CRIT = __import__('harness.common', fromlist=['Enum']).Enum("a\n' \\")   # the critical alphabet of the property, for longer texts


def _in_known_region(site, text, stored):
    """Known, still-open defects of the unchanged tree (each only while its witness fails)."""
    if region_active('c13_triple_quote_in_text') and _has_triple(stored):
        return True
    if region_active('c13_multiline_in_settings_or_raw_site') and docs.has_char(stored, '\n') and (
            site in SETTINGS_NOTE_SITES or site in RAW_QUOTE_SITES or site in ('table_property', 'column_property', 'string_default')):
        return True
    if region_active('c13_default_bool_word') and site == 'string_default' and _is_bool_word(stored):
        return True
    return False


def _has_unicode_linebreak(t):
    """characters other than \\n that str.splitlines treats as a line boundary"""
    for ch in t:
        o = ord(ch)
        if o == 0x85 or o == 0x2028 or o == 0x2029 or o == 0x0B or o == 0x0C or o == 0x0D or (0x1C <= o <= 0x1E):
            return True
    return False


def _has_triple(t):
    n = len(t)
    for i in range(n - 2):
        if t[i] == "'" and t[i + 1] == "'" and t[i + 2] == "'":
            return True
    return False


def _is_bool_word(t):
    n = len(t)
    if n != 4 and n != 5:
        return False
    lo = ''
    for ch in t:
        o = ord(ch)
        lo = lo + (chr(o + 32) if 65 <= o <= 90 else ch)
    return lo == 'null' or lo == 'true' or lo == 'false'


def _ascii_blanks_only(t):
    """True when every whitespace-ish character of t is ASCII space or newline (no NBSP, U+0085, U+2028 ...)."""
    for ch in t:
        o = ord(ch)
        if o == 0x85 or o == 0xA0 or o == 0x1680 or (0x2000 <= o <= 0x200A) or o == 0x2028 or o == 0x2029 \
                or o == 0x202F or o == 0x205F or o == 0x3000 or o == 0x0B or o == 0x0C or o == 0x0D \
                or (0x1C <= o <= 0x1F) or o == 9:
            return False
    return True


def site_roundtrip(site, K, style, cls='quick'):
    """text (K symbolic chars) written in `style` at `site`: stored exactly / normalised; .dbml re-parses to the
    same stored text and the same content; rendering the re-parsed database is byte-identical (fixpoint)."""
    tmpl, getter, is_note, kw = SITES[site]
    dom = {'quick': TXT_Q, 'nl': TXT_NL, 'bs': TXT_BS, 'wide': WIDE, 'crit': CRIT}[cls]
    if style != 'triple' and cls in ('nl', 'wide'):
        pass  # newline is written as the \n escape in single-line styles

    def body(a):
        text = text_of(a, 'c', K)
        doc = tmpl.format(Q=docs.quote(text, style))
        try:
            db = docs.parse(doc, **kw)
        except Exception:
            return 'well-formed document rejected'
        stored = getter(db)
        if _in_known_region(site, text, stored):
            return ''
        reached()
        if is_note:
            if docs.ascii_blanks_only(text) and not norm_equiv(stored, norm(text)):
                return 'stored note differs from the normalised text'
        elif stored != text:
            return 'stored text differs from the written text'
        try:
            d1 = db.dbml
        except Exception:
            return 'rendering .dbml raised'
        try:
            db2 = docs.parse(d1, **kw)
        except Exception:
            return 'rendered .dbml does not re-parse'
        if getter(db2) != stored:
            return 'text changed by render + parse'
        if content(db2) != content(db):
            return 'a neighbouring field changed by render + parse'
        if db2.dbml != d1:
            return 'rendering is not a fixpoint'
        return ''

    def describe(a):
        text = ''.join(chr(a[f'c{i}']) for i in range(K))
        return {'site': site, 'style': style, 'text': text, 'document': tmpl.format(Q=docs.quote(text, style))}

    return Harness(body, hole_args('c', K, dom), describe=describe, bounds={'site': site, 'style': style, 'K': K})


def styles_agree(site, K, cls='quick'):
    """the same text written in the three string styles is stored identically"""
    tmpl, getter, is_note, kw = SITES[site]
    dom = {'quick': TXT_Q, 'nl': TXT_NL, 'bs': TXT_BS, 'wide': WIDE, 'crit': CRIT}[cls]

    def body(a):
        text = text_of(a, 'c', K)
        vals = []
        for style in ('single', 'double', 'triple'):
            try:
                db = docs.parse(tmpl.format(Q=docs.quote(text, style)), **kw)
            except Exception:
                return 'well-formed document rejected (' + style + ')'
            vals.append(getter(db))
        reached()
        if vals[0] != vals[1] or vals[1] != vals[2]:
            return 'string styles are stored differently'
        return ''

    def describe(a):
        text = ''.join(chr(a[f'c{i}']) for i in range(K))
        return {'site': site, 'text': text, 'documents': [tmpl.format(Q=docs.quote(text, s)) for s in ('single', 'double', 'triple')]}

    return Harness(body, hole_args('c', K, dom), describe=describe, bounds={'site': site, 'K': K})


LEAF = Cls('ASCII', plus='\n\xa0')


def norm_shape():
    """three-line texts whose indentation widths are symbolic: the blank-only middle line must not count as indentation"""
    from harness.common import IntRange

    def body(a):
        from pydbml.tools import strip_empty_lines, remove_indentation
        SP = ['', ' ', '  ', '   ']      # list lookup: the widths are enumerated, the text stays concrete per path
        x = SP[a['n1']] + 'a' + '\n' + SP[a['k']] + '\n' + SP[a['n2']] + 'b' + ('\n' + SP[a['k']] if a['tail'] else '')
        try:
            y = remove_indentation(strip_empty_lines(x))
            z = remove_indentation(strip_empty_lines(y))
            db = docs.parse("Table t {\n  c int\n  Note: '''" + x + "'''\n}\n")
        except Exception:
            return 'normalisation raised'
        reached()
        if not norm_equiv(y, norm(x)) or z != y:
            return 'normalisation differs from the reference normaliser or is not idempotent'
        if not norm_equiv(db.tables[0].note.text, norm(x)):
            return 'stored note is not the normalised text'
        if docs.parse(db.dbml).tables[0].note.text != db.tables[0].note.text:
            return 'note changes on render + parse'
        return ''

    return Harness(body, [('n1', IntRange(0, 3)), ('k', IntRange(0, 3)), ('n2', IntRange(0, 3)), ('tail', 'bool')],
                   describe=lambda a: dict(a), bounds={'shape': "' '*n1 a NL ' '*k NL ' '*n2 b"})


def norm_lemma(K):
    """tools: remove_indentation(strip_empty_lines(x)) is idempotent and equals norm(x) for ASCII-blank texts"""
    def body(a):
        from pydbml.tools import strip_empty_lines, remove_indentation
        x = text_of(a, 'c', K)
        try:
            y = remove_indentation(strip_empty_lines(x))
            z = remove_indentation(strip_empty_lines(y))
        except Exception:
            return 'normalisation raised'
        reached()
        if z != y:
            return 'normalisation is not idempotent'
        if docs.ascii_blanks_only(x) and not norm_equiv(y, norm(x)):
            return 'normalisation differs from the reference normaliser'
        return ''

    return Harness(body, hole_args('c', K, LEAF), describe=lambda a: {'text': ''.join(chr(a[f'c{i}']) for i in range(K))},
                   bounds={'K': K})


SQLTXT = Cls('NARROW', plus='\n')


def sql_note(site, K):
    """table / column note in .sql: one COMMENT ON literal, no unescaped quote, text = note with quotes neutralised"""
    tmpl, getter, is_note, kw = SITES[site]

    def body(a):
        text = text_of(a, 'c', K)
        try:
            db = docs.parse(tmpl.format(Q=docs.q_triple(text)), **kw)
        except Exception:
            return 'well-formed document rejected'
        stored = getter(db)
        try:
            sql = db.sql
        except Exception:
            return '.sql raised'
        reached()
        r = ddl.read_or_none(sql)
        if r is None:
            return 'note text broke the SQL statement structure'
        stmts, _ = r
        cm = [s for s in stmts if s[0] == 'comment']
        if stored == '':
            return '' if not cm else 'COMMENT ON emitted for an empty note'
        if len(cm) != 1:
            return 'expected exactly one COMMENT ON statement'
        expect = ''
        i = 0
        n = len(stored)
        while i < n:
            ch = stored[i]
            if ch == '\\' and i + 1 < n and stored[i + 1] == '\n':
                i += 2
                continue
            expect = expect + ('"' if ch == "'" else ch)
            i += 1
        if cm[0][3] != expect:
            return 'COMMENT ON literal differs from the note text with quotes neutralised'
        if len([s for s in stmts if s[0] == 'table']) != 1 or len(stmts) != 2:
            return 'unexpected extra statements'
        return ''

    return Harness(body, hole_args('c', K, SQLTXT),
                   describe=lambda a: {'site': site, 'text': ''.join(chr(a[f'c{i}']) for i in range(K))},
                   bounds={'site': site, 'K': K})


EXPR = Cls('NARROW', minus="`()'\",-;\\")


EXPR_BS = Cls('NARROW', minus="`()'\",-;")      # with the backslash: an expression is not a string literal, nothing in it is an escape


def sql_expression(K, dom=None):
    """expression default: verbatim inside parentheses in .sql, verbatim inside backticks in .dbml"""
    dom = EXPR_BS if dom == 'bs' else EXPR

    def body(a):
        text = text_of(a, 'c', K)
        doc = "Table t {\n  c int [default: `" + text + "`]\n}\n"
        try:
            db = docs.parse(doc)
            sql = db.sql
            d1 = db.dbml
            db2 = docs.parse(d1)
        except Exception:
            return 'expression default broke parsing or rendering'
        reached()
        r = ddl.read_or_none(sql)
        if r is None or len(r[0]) != 1 or r[0][0][0] != 'table':
            return 'expression text broke the SQL structure'
        col = r[0][0][2][0]
        if col[6] != '(' + text + ')':
            return 'expression not emitted verbatim inside parentheses'
        d = db2.tables[0].columns[0].default
        if type(d).__name__ != 'Expression' or d.text != text:
            return 'expression text changed by render + parse'
        return ''

    return Harness(body, hole_args('c', K, dom),
                   describe=lambda a: {'expr': ''.join(chr(a[f'c{i}']) for i in range(K))}, bounds={'K': K})


def sql_expr_fixed():
    """expression texts with parentheses at both ends, nested parentheses, quotes: verbatim inside one more pair of parentheses"""
    from harness.c03 import EXPRS
    from harness.common import IntRange

    def body(a):
        text = EXPRS[a['ex']]
        doc = "Table t {\n  c int [default: `" + text + "`]\n  indexes {\n    `" + text + "` [name: 'i']\n  }\n}\n"
        try:
            db = docs.parse(doc)
            sql = db.sql
        except Exception:
            return 'expression broke parsing or rendering'
        reached()
        r = ddl.read_or_none(sql)
        if r is None:
            return 'expression text broke the SQL structure'
        tab = [s_ for s_ in r[0] if s_[0] == 'table'][0]
        idx = [s_ for s_ in r[0] if s_[0] == 'index'][0]
        if tab[2][0][6] != '(' + text + ')':
            return 'expression default not emitted verbatim inside parentheses'
        if idx[5] != (('expr', '(' + text + ')'),):
            return 'expression index subject not emitted verbatim inside parentheses'
        return ''

    return Harness(body, [('ex', IntRange(0, len(EXPRS) - 1))], describe=lambda a: {'expr': EXPRS[a['ex']]}, bounds={'exprs': EXPRS})


# ---- instance tables ----------------------------------------------------------------------------
def instances(tier):
    out = []

    def add(name, factory, params, timeout=180, **kw):
        d = {'name': name, 'factory': factory, 'params': params, 'timeout': timeout}
        d.update(kw)
        out.append(d)

    quick = tier == 'quick'
    # sites inside a column settings list are the slowest to execute symbolically: their K=3 instances did not finish within
    # 1200-2400 s in the first complete thorough run (inconclusive), so they stay at K=2 in the thorough tier as well
    slow = ('column_note', 'column_property', 'string_default')
    for site in SITES:
        k_site = 2 if (quick or site in slow) else 3
        add(f'rt/{site}/single/K{k_site}', 'site_roundtrip', {'site': site, 'K': k_site, 'style': 'single'}, 240 if quick else 900)
    for site in ('table_note_block', 'sticky_note', 'column_note', 'project_field'):
        k_site = 2 if (quick or site in slow) else 3
        add(f'rt/{site}/triple/nl/K{k_site}', 'site_roundtrip', {'site': site, 'K': k_site, 'style': 'triple', 'cls': 'nl'}, 300 if quick else 900)
    for site in ('table_note_inline', 'string_default'):
        add(f'rt/{site}/double/bs/K2', 'site_roundtrip', {'site': site, 'K': 2, 'style': 'double', 'cls': 'bs'}, 300)
    for site in ('table_note_block', 'string_default', 'project_field'):
        add(f'styles/{site}/K2', 'styles_agree', {'site': site, 'K': 2, 'cls': 'bs'}, 300)
    for site in ('table_note_block', 'sticky_note', 'project_note'):
        add(f'rt/{site}/triple/crit/K3', 'site_roundtrip', {'site': site, 'K': 3, 'style': 'triple', 'cls': 'crit'}, 280)
    add('norm_lemma/K3', 'norm_lemma', {'K': 3}, 240)
    add('norm_shape', 'norm_shape', {}, 280)
    add('sql_note/table/K2', 'sql_note', {'site': 'table_note_inline', 'K': 2}, 240)
    add('sql_note/column/K2', 'sql_note', {'site': 'column_note', 'K': 2}, 240)
    if not quick:
        add('sql_expr/K2', 'sql_expression', {'K': 2}, 240)
    add('sql_expr/bs/K2', 'sql_expression', {'K': 2, 'dom': 'bs'}, 240)
    add('sql_expr_fixed', 'sql_expr_fixed', {}, 240)
    if not quick:
        for site in SITES:
            if site in slow:
                continue
            add(f'rt/{site}/triple/wide/K3', 'site_roundtrip', {'site': site, 'K': 3, 'style': 'triple', 'cls': 'wide'}, 2400)
            add(f'rt/{site}/double/bs/K3', 'site_roundtrip', {'site': site, 'K': 3, 'style': 'double', 'cls': 'bs'}, 2400)
            add(f'styles/{site}/K3', 'styles_agree', {'site': site, 'K': 3, 'cls': 'bs'}, 2400)
        for site in SITES:
            add(f'rt/{site}/triple/crit/K4', 'site_roundtrip', {'site': site, 'K': 4, 'style': 'triple', 'cls': 'crit'}, 3000)
        add('rt/table_note_block/triple/nl/K4', 'site_roundtrip', {'site': 'table_note_block', 'K': 4, 'style': 'triple', 'cls': 'nl'}, 2400)
        add('norm_lemma/K4', 'norm_lemma', {'K': 4}, 1200)
        add('norm_lemma/K5', 'norm_lemma', {'K': 5}, 2400)
        add('sql_note/table/K3', 'sql_note', {'site': 'table_note_block', 'K': 3}, 1200)
        add('sql_note/column/K3', 'sql_note', {'site': 'column_note', 'K': 3}, 1200)
        add('sql_expr/K3', 'sql_expression', {'K': 3}, 1200)
    return out
